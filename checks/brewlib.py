"""Shared harness for the checks that run the real mokapot.brew.brew() symbolically
(C02, C04-L2, C05, C07, C08, C11 per-fold obligation).

World: numpy/pandas -> symnp/sympd, files on the VFS through the REAL reader classes,
joblib -> sequential tasks (optionally nondeterministic order), zlib.crc32 -> uninterpreted
function (injective on the keys of a run), estimator -> recording duck-typed model whose
scores are fresh symbols per (fold model, row)."""
import copy


def setup():
    from symx import world, symnp, sympd, vfs, stubs
    world.import_mokapot_patched()
    B = world.mod("mokapot.brew")
    D = world.mod("mokapot.dataset")
    P = world.mod("mokapot.parsers.pin")
    U = world.mod("mokapot.utils")
    T = world.mod("mokapot.tabular_data")
    Q = world.mod("mokapot.qvalues")
    for name in ("calibrate_scores", "update_labels", "_predict", "_fit_model", "PercolatorModel"):
        ORIG.setdefault(name, B.__dict__[name])  # as imported, before any harness rebinds them
    world.rebind(B, np=symnp, Parallel=stubs.SParallel, delayed=stubs.sdelayed)
    world.rebind(D, np=symnp, pd=sympd, crc32=s_crc32, str=s_str, hash=s_hash)
    world.rebind(P, pd=sympd, Parallel=stubs.SParallel, delayed=stubs.sdelayed)
    world.rebind(U, np=symnp, pd=sympd)
    world.rebind(T, np=symnp, pd=sympd, pq=vfs.pq_stub, pa=vfs.pa_stub)
    world.rebind(Q, np=symnp)
    for m in (B, D, P, U, T):
        if "Path" in m.__dict__:
            m.__dict__["Path"] = vfs.VPath
    return B, D, P, U, T, Q


_str = str
HASHES = {}
ORIG = {}


def s_str(x):
    from symx import core
    if isinstance(x, tuple) and any(isinstance(v, core.Sym) for v in x):
        return core.SKey(x)
    return _str(x)


SESSION = [0]  # interpreter session of the code under test (Python's str hash is salted per session: PYTHONHASHSEED)


def _zpart(p):
    import z3
    from symx import core
    return z3.StringVal(p) if isinstance(p, _str) else core._z(p)


def s_hash(x):
    """builtin hash(): for a tuple with a str/bytes member the value differs from one interpreter
    session to the next (salted), for numbers it is a fixed function of the value."""
    import z3
    from symx import core, symnp
    if isinstance(x, symnp.SArray):
        raise TypeError("unhashable type: 'numpy.ndarray'")
    parts = x.parts if isinstance(x, core.SKey) else x if isinstance(x, tuple) else None
    if parts is None or not any(isinstance(p, core.Sym) for p in parts):
        if parts is not None and any(isinstance(p, (_str, bytes)) for p in parts) or isinstance(x, (_str, bytes)):
            raise core.Unsupported("hash() of a concrete str: salted per interpreter session, not modelled for %r" % (x,))
        return hash(x)
    textual = any(isinstance(p, (_str, bytes)) for p in parts)
    zp = tuple(_zpart(p) for p in parts)
    name = "pyhash_%s_%d" % ("session%d" % SESSION[0] if textual else "det", len(zp))
    H = z3.Function(name, *([q.sort() for q in zp] + [z3.IntSort()]))
    h = H(*zp)
    ctx = core.Ctx.cur
    seen = HASHES.setdefault((id(ctx), name), [])
    for op, oh in seen:
        if len(op) == len(zp) and all(a.sort() == b.sort() for a, b in zip(op, zp)):
            ctx.assume(z3.Implies(z3.Not(z3.And([a == b for a, b in zip(op, zp)])), oh != h))
    seen.append((zp, h))
    return core.SNum(h)


def s_crc32(k):
    """zlib.crc32 -> uninterpreted function of the key tuple; assumed injective on the keys
    of one run (collisions are outside every claim, DESIGN 1.3)."""
    import z3
    from symx import core
    if not isinstance(k, core.SKey):
        import zlib
        return zlib.crc32(k)
    parts = tuple(_zpart(p) for p in k.parts)
    sig = tuple(p.sort().name() for p in parts)
    name = "crc32_%s" % "_".join(sig)
    H = z3.Function(name, *([p.sort() for p in parts] + [z3.IntSort()]))
    h = H(*parts)
    ctx = core.Ctx.cur
    seen = HASHES.setdefault(id(ctx), [])
    for op, oh in seen:
        if len(op) == len(parts) and all(a.sort() == b.sort() for a, b in zip(op, parts)):
            ctx.assume(z3.Implies(z3.Not(z3.And([a == b for a, b in zip(op, parts)])), oh != h))
    seen.append((parts, h))
    return core.SNum(h)


class Estimator:
    """exposes decision_function so that brew calibrates scores"""

    def decision_function(self, X):
        raise NotImplementedError


class EstimatorNoDF:
    pass


class StubModel:
    """Duck-typed model as brew() accepts: records the rows it is fitted on and scores every
    row by a fresh symbol score(fold model, row id) - an arbitrary function of everything the
    model has seen (covers memorising learners)."""

    def __init__(self, log, decision_function=True, fail=None, feat_pass=0, best_feat="f1", desc=True, override=False):
        self.estimator = Estimator() if decision_function else EstimatorNoDF()
        self.log = log
        self.is_trained = False
        self.override = override
        self.best_feat = best_feat
        self.feat_pass = feat_pass
        self.desc = desc
        self.fold = None
        self.rng = None
        self.fail = fail or {}
        self.trained_on = None
        self.uid = None

    def __deepcopy__(self, memo):
        m = StubModel(self.log, hasattr(self.estimator, "decision_function"), self.fail, self.feat_pass, self.best_feat, self.desc, self.override)
        m.is_trained, m.fold, m.trained_on, m.uid = self.is_trained, self.fold, self.trained_on, self.uid
        return m

    def fit(self, train_set):
        ids = [int(x) for x in train_set.data["rowid"]._v]
        files = list(train_set.data["fileid"]._v) if "fileid" in train_set.data.columns else [0] * len(ids)
        self.trained_on = list(zip(files, ids))
        self.uid = self.fold
        self.log.setdefault("fits", []).append((self.fold, list(self.trained_on)))
        mode = self.fail.get(self.fold)
        if mode == "worse":
            raise RuntimeError("Model performs worse after training.")
        self.is_trained = True
        return self

    def predict(self, psms):
        import z3
        from symx import symnp, core
        ids = [int(x) for x in psms.data["rowid"]._v]
        files = list(psms.data["fileid"]._v) if "fileid" in psms.data.columns else [0] * len(ids)
        self.log.setdefault("predicts", []).append((self.uid, list(zip(files, ids))))
        return symnp.SArray([core.SNum(z3.Real("score_m%s_f%s_r%d" % (self.uid, f, i))) for f, i in zip(files, ids)], symnp.float64)


COLS = ["SpecId", "Label", "ScanNr", "ExpMass", "Peptide", "Proteins", "rowid", "fileid", "f1"]


def make_dataset(ctx, D, n, fid=0, keycols=2, label_enc="pm1", tag="", filecol=False):
    """One PIN-like VFS file with n rows. Symbolic: spectrum key columns, labels, feature."""
    import z3
    from symx import sympd, vfs, core
    from symx.core import SNum, SBool
    scan = [z3.Int("scan%s_%d_%d" % (tag, fid, i)) for i in range(n)]
    mass = [z3.Int("mass%s_%d_%d" % (tag, fid, i)) for i in range(n)]
    lab = [z3.Bool("t%s_%d_%d" % (tag, fid, i)) for i in range(n)]
    feat = [z3.Real("f%s_%d_%d" % (tag, fid, i)) for i in range(n)]
    if label_enc == "bool":
        labcol = [SBool(z) for z in lab]
    else:
        labcol = [core.ite(SBool(z), 1, -1 if label_enc == "pm1" else 0) for z in lab]
    path = vfs.VPath("/vfs/in/file%d.pin" % fid)
    cols = {"SpecId": list(range(n)), "Label": labcol, "ScanNr": [SNum(z) for z in scan], "ExpMass": [SNum(z) for z in mass],
            "Peptide": ["PEP%d_%d" % (fid, i) for i in range(n)], "Proteins": ["PROT"] * n, "rowid": list(range(n)), "fileid": [fid] * n,
            "f1": [SNum(z) for z in feat]}
    spec_cols = ["ScanNr", "ExpMass"][:keycols] if keycols <= 2 else ["ScanNr", "ExpMass", "Peptide"][:keycols]
    if filecol:
        # the optional file-name column comes first among the spectrum columns (as read_pin orders them)
        cols["filename"] = ["run%d.mzML" % fid] * n
        spec_cols = ["filename"] + spec_cols
    vfs.put(path, sympd.DataFrame(cols))
    sdf = sympd.DataFrame({c: list(cols[c]) for c in spec_cols})
    sdf["Label"] = [SBool(z) for z in lab]
    extra = ["filename"] if filecol else []
    ds = D.OnDiskPsmDataset(filename=path, columns=list(COLS) + extra, target_column="Label", spectrum_columns=list(spec_cols), peptide_column="Peptide",
                            protein_column="Proteins", feature_columns=["rowid", "fileid", "f1"], metadata_columns=["SpecId", "Label", "ScanNr", "ExpMass", "Peptide", "Proteins"] + extra,
                            metadata_column_types=["int", "int", "int", "int", "str", "str"] + ["str"] * len(extra), level_columns=["Peptide"], filename_column="filename" if filecol else None, scan_column="ScanNr",
                            specId_column="SpecId", calcmass_column=None, expmass_column="ExpMass", rt_column=None, charge_column=None, spectra_dataframe=sdf)
    sym = dict(scan=scan, mass=mass, lab=lab, feat=feat, n=n, fid=fid, keycols=keycols, path=path)
    return ds, sym


def key_eq(sym, i, j):
    import z3
    if sym["keycols"] >= 2:
        return z3.And(sym["scan"][i] == sym["scan"][j], sym["mass"][i] == sym["mass"][j])
    return sym["scan"][i] == sym["scan"][j]


class CalRecorder:
    """Stub of brew.calibrate_scores: tags its outputs so that alignment is checkable; the
    numeric kernel itself is checked by C11."""

    def __init__(self):
        self.calls = []

    def __call__(self, scores, targets, eval_fdr, desc=True):
        import z3
        from symx import symnp, core
        k = len(self.calls)
        out = [core.SNum(z3.Real("cal%d_%d" % (k, j))) for j in range(len(scores))]
        self.calls.append((list(scores.items), list(targets.items), out))
        self.descs = getattr(self, "descs", []) + [desc]
        return symnp.SArray(list(out), symnp.float64)


def dataset_inputs(syms):
    from symx.core import SNum, SBool
    return [dict(scan=[SNum(z) for z in s["scan"]], mass=[SNum(z) for z in s["mass"]], labels=[SBool(z) for z in s["lab"]],
                 f1=[SNum(z) for z in s["feat"]], keycols=s["keycols"]) for s in syms]


# ---------------------------------------------------------------- concrete side --
def real_dataset(d, tmp, fid, rows, label_enc="pm1", suffix=".pin", filecol=False):
    """Write one real PIN/Parquet file and build the OnDiskPsmDataset through the public
    reader (mokapot.read_pin). Hash ORDER of the uninterpreted crc32 cannot be imposed on
    zlib; the concrete oracle is evaluated for whatever order the real hash produces."""
    import pandas as pd
    from pathlib import Path
    n = len(rows["scan"])
    lab = [bool(x) for x in rows["labels"]]
    labcol = lab if label_enc == "bool" else [1 if t else (-1 if label_enc == "pm1" else 0) for t in lab]
    df = pd.DataFrame({"SpecId": list(range(n)), "Label": labcol, "ScanNr": [int(x) for x in rows["scan"]], "ExpMass": [float(int(x)) for x in rows["mass"]],
                       "Peptide": ["PEP%d_%d" % (fid, i) for i in range(n)], "Proteins": ["PROT"] * n, "rowid": [float(i) for i in range(n)],
                       "fileid": [float(fid)] * n, "f1": [float(x) for x in rows["f1"]]})
    if rows.get("keycols", 2) == 1:
        df = df.drop(columns=["ExpMass"])
    if filecol:
        # the optional file-name column: a text column that read_pin puts first among the spectrum columns
        df.insert(2, "filename", ["run%d.mzML" % fid] * n)
    p = Path(tmp) / ("file%d%s" % (fid, suffix))
    if suffix == ".parquet":
        df.to_parquet(p, index=False)
    else:
        df.to_csv(p, sep="\t", index=False)
    return p, df
