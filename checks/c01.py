"""C01 - TDC q-values equal the defining formula; labels derived from them.

Real code executed symbolically: mokapot.qvalues.tdc, _fdr2qvalue (as plain Python),
mokapot.dataset._update_labels, qvalues_from_scores('tdc').
"""
from fractions import Fraction

from . import spec

ID = "C01"


# ------------------------------------------------------------------ symbolic --
def setup():
    from symx import world, symnp, sympd
    world.import_mokapot_patched()
    Q = world.mod("mokapot.qvalues")
    D = world.mod("mokapot.dataset")
    world.rebind(Q, np=symnp)
    world.rebind(D, np=symnp, pd=sympd)
    symnp.ARGSORT_NONDET[0] = True  # C01 holds for ANY order among tied scores (numpy documents quicksort as unstable)
    return Q, D


def sym(ctx, cfg):
    import z3
    from symx import symnp, core
    from symx.core import SNum, SBool, PathOutcome, Unsupported
    Q, D = setup()
    n, desc, skind, lkind = cfg["n"], cfg["desc"], cfg["skind"], cfg["lkind"]
    zs = [z3.Real("s%d" % i) if skind == "real" else z3.Int("s%d" % i) for i in range(n)]
    scores = symnp.SArray([SNum(z) for z in zs], symnp.float64 if skind == "real" else symnp.int8 if skind == "int8" else symnp.int64)
    if skind == "int":
        for z in zs:
            ctx.assume(z3.And(z >= -2 ** 24, z <= 2 ** 24))  # "small-integer" scores: exactly representable in the float32 they are cast to
    if skind == "int8":
        for z in zs:
            ctx.assume(z3.And(z >= -128, z <= 127))  # the whole range of the dtype, its minimum included
    lo, hi = cfg.get("lrange", (0, 1))
    if lkind == "bool":
        zt = [z3.Bool("t%d" % i) for i in range(n)]
        target = symnp.SArray([SBool(z) for z in zt], symnp.bool_)
        tb = zt
    elif lkind == "int":
        zt = [z3.Int("t%d" % i) for i in range(n)]
        for z in zt:
            ctx.assume(z3.And(z >= lo, z <= hi))
        target = symnp.SArray([SNum(z, (lo, hi)) for z in zt], symnp.int64)
        tb = [z == 1 for z in zt]
    else:
        zt = [z3.Real("t%d" % i) for i in range(n)]
        for z in zt:
            ctx.assume(z3.Or([z == v for v in range(lo, hi + 1)]))
        target = symnp.SArray([SNum(z) for z in zt], symnp.float64)
        tb = [z == 1 for z in zt]
    e = z3.Real("eval_fdr")
    ctx.assume(z3.And(e > 0, e <= 1))
    inputs = dict(scores=[SNum(z) for z in zs], targets=list(target.items), desc=desc, eval_fdr=SNum(e))
    bad_label = z3.Or([z3.Or(_zz(t) < 0, _zz(t) > 1) for t in target.items]) if lkind != "bool" else z3.BoolVal(False)
    rec = {}
    real_tdc = Q.__dict__["tdc"]

    def rec_tdc(scores, target, desc=True):
        r = real_tdc(scores, target, desc=desc)
        rec["q"] = r
        return r
    Q.__dict__["tdc"] = rec_tdc
    try:
        if cfg.get("series"):
            # pandas Series in (the documented alternative to boolean arrays): 0/1 labels of any dtype
            from symx import sympd
            labels = D._update_labels(sympd.Series(list(scores.items), name="score"), sympd.Series(list(target.items), name="Label", dtype=target.dtype), SNum(e), desc)
            q = rec["q"]
        elif lkind == "bool":
            labels = D._update_labels(scores, target, SNum(e), desc)
            q = rec["q"]
        else:
            # _update_labels is documented for boolean targets; other encodings go to tdc directly
            q = Q.tdc(scores, target, desc=desc)
            labels = None
    except Unsupported:
        raise
    except ValueError as ex:
        if "'target' should be boolean" in str(ex):
            # legitimate exactly when some label is outside {0,1}
            return PathOutcome([("valueerror_only_for_bad_labels", bad_label)], inputs, None, "assert", note="ValueError(bad label)")
        return PathOutcome([], inputs, None, "exc", note="ValueError:" + str(ex)[:80])
    except Exception as ex:
        return PathOutcome([], inputs, None, "exc", note=type(ex).__name__ + ":" + str(ex)[:80])
    finally:
        Q.__dict__["tdc"] = real_tdc
    props = [("accepted_only_good_labels", z3.Not(bad_label))]
    qs = spec.spec_q_terms(zs, tb, desc)
    if len(q) != n:
        return PathOutcome([("length", z3.BoolVal(False))], inputs, None)
    for i in range(n):
        props.append(("q%d" % i, core._z(q.items[i]) == qs[i]))
    outputs = dict(q=list(q.items))
    if labels is not None:
        ls = spec.spec_labels_terms(qs, tb, e)
        for i in range(n):
            props.append(("label%d" % i, core._z(labels.items[i]) == ls[i]))
        outputs["labels"] = list(labels.items)
    return PathOutcome(props, inputs, outputs)


def _zz(x):
    from symx import core
    return core._z(x)


def harnesses(tier):
    from symx.runner import Harness
    Q, D = setup()
    funcs = [Q.tdc, Q._fdr2qvalue, D._update_labels]
    hs = []

    def add(n, desc, skind, lkind, lrange=(0, 1), series=False):
        cfg = dict(n=n, desc=desc, skind=skind, lkind=lkind, lrange=list(lrange), series=series)
        name = "tdc[n=%d,%s,%s,%s%s%s]" % (n, "desc" if desc else "asc", skind, lkind, "" if lrange == (0, 1) else ",labels%d..%d" % lrange, ",pandas Series through _update_labels" if series else "")
        hs.append(Harness(name, cfg, sym, real="tdc", functions=funcs,
                          bounds=dict(N=n, scores=skind, labels=lkind),
                          stubs=["symnp (numpy subset, argsort ties nondeterministic)", "typeguard.typechecked = identity", "numba.njit = identity"],
                          assumptions=["scores are finite reals / integers (float = mathematical real; float32 rounding outside the claim); int64 scores |s| <= 2^24 (exact in float32), int8 scores over the whole dtype range",
                                       "0 < eval_fdr <= 1",
                                       "N <= %d" % n]))
    nmax = 4 if tier == "quick" else 5
    for desc in (True, False):
        for n in range(1, nmax + 1):
            add(n, desc, "real", "bool")
        for n in range(1, nmax):
            add(n, desc, "int", "bool")
        for n in range(2, nmax):
            add(n, desc, "int8", "bool")
        for n in range(1, nmax):
            add(n, desc, "real", "int")
            add(n, desc, "real", "float")
        for lk in ("bool", "int", "float"):
            add(2, desc, "real", lk, series=True)
            add(3, desc, "real", lk, series=True)
        add(2, desc, "real", "int", (-1, 2))
        add(2, desc, "real", "float", (-1, 2))
    return hs


# ------------------------------------------------------------------ concrete --
def real_tdc(cfg, inp):
    """Run the unpatched mokapot on concrete inputs and evaluate the concrete oracle."""
    import numpy as np
    import mokapot.qvalues as Q
    import mokapot.dataset as D
    n, desc, skind, lkind = cfg["n"], cfg["desc"], cfg["skind"], cfg["lkind"]
    scores = np.array(inp["scores"], dtype=np.float64 if skind == "real" else np.int8 if skind == "int8" else np.int64)
    tdt = dict(bool=bool, int=np.int64, float=np.float64)[lkind]
    target = np.array(inp["targets"], dtype=tdt)
    tb = [bool(t == 1) for t in inp["targets"]]
    bad = lkind != "bool" and any(t < 0 or t > 1 for t in inp["targets"])
    e = float(inp["eval_fdr"])
    out = {}
    try:
        q = Q.tdc(scores, target, desc=desc)
    except ValueError as ex:
        if bad and "'target' should be boolean" in str(ex):
            return dict(exception="ValueError", violation=None)
        return dict(exception=repr(ex), violation="tdc raised %r on a valid labelling" % (ex,))
    except Exception as ex:
        return dict(exception=repr(ex), violation="tdc raised %r" % (ex,))
    if bad:
        return dict(violation="tdc accepted labels outside {0,1}: %s" % inp["targets"])
    out["q"] = [float(x) for x in q]
    exp = spec.conc_q([Fraction(x) for x in scores.tolist()], tb, desc)
    viol = None
    if len(q) != n:
        viol = "length %d != %d" % (len(q), n)
    else:
        for i in range(n):
            if abs(float(q[i]) - float(exp[i])) > 2e-6:
                viol = "q[%d]=%r, formula gives %s (scores=%s targets=%s desc=%s)" % (i, float(q[i]), exp[i], scores.tolist(), tb, desc)
                break
    if viol is None and desc and lkind == "bool":
        q2 = Q.qvalues_from_scores(scores, target, "tdc")
        if not np.allclose(q2, q, atol=1e-9):
            viol = "qvalues_from_scores('tdc') differs from tdc(desc=True)"
    if viol is None and (lkind == "bool" or cfg.get("series")):
        if cfg.get("series"):
            import pandas as pd
            try:
                labels = D._update_labels(pd.Series(scores), pd.Series(target), e, desc)
            except Exception as ex:
                return dict(exception=repr(ex), violation="_update_labels(Series, Series of %s 0/1 labels) raised %r" % (lkind, ex))
        else:
            labels = D._update_labels(scores, target, e, desc)
        out["labels"] = [float(x) for x in labels]
        el = spec.conc_labels(exp, tb, Fraction(e))
        for i in range(n):
            if el[i] is not None and float(labels[i]) != el[i]:
                viol = "label[%d]=%r, expected %r (q=%s eval_fdr=%r)" % (i, float(labels[i]), el[i], exp[i], e)
                break
    return dict(outputs=out, violation=viol)


REAL = {"tdc": real_tdc}
