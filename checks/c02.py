"""C02 - cross-validation integrity: no PSM is scored by a model that saw its spectrum.

Real code executed symbolically: the whole of mokapot.brew.brew() in ensemble-off mode -
OnDiskPsmDataset._split, make_train_sets, parse_in_chunks / get_rows_from_dataframe /
concat_and_reindex_chunks, _fit_model, _create_psms, LinearPsmDataset.__init__, the routing
block (model_to_psm_idx), _predict / get_index_values / predict_fold - with a recording
model whose scores are fresh symbols (arbitrary-capacity learner)."""
import os

from . import brewlib

ID = "C02"


def sym(ctx, cfg):
    import z3
    from symx import symnp, sympd, vfs, stubs, core
    from symx.core import SNum, SBool, PathOutcome, Unsupported
    B, D, P, U, T, Q = brewlib.setup()
    vfs.reset()
    brewlib.HASHES.clear()
    N, folds, nfiles, keycols = cfg["n"], cfg["folds"], cfg.get("files", 1), cfg.get("keycols", 2)
    sizes = cfg.get("sizes") or [N] * nfiles
    dss, syms = [], []
    for fid in range(nfiles):
        ds, s = brewlib.make_dataset(ctx, D, sizes[fid], fid, keycols, cfg.get("labels", "pm1"), filecol=bool(cfg.get("filecol")))
        dss.append(ds)
        syms.append(s)
        if cfg.get("fixed_labels"):
            # labels only matter for the explicit "no target/decoy PSMs" errors: fix an alternating pattern
            for i, z in enumerate(s["lab"]):
                ctx.assume(z == z3.BoolVal((i + fid) % 2 == 0))
    big = max(sizes) + 1
    B.CHUNK_SIZE_ROWS_PREDICTION = int(ctx.fresh_int("chunk_prediction", 1, big)) if cfg.get("sym_chunks") == "prediction" else big
    B.CHUNK_SIZE_READ_ALL_DATA = int(ctx.fresh_int("chunk_read_all", 1, big)) if cfg.get("sym_chunks") == "read" else big
    stubs.MODE[0] = "nondet" if cfg.get("sched") else "submission"
    gen = symnp.Generator("nondet" if cfg.get("rng") else "identity")
    cap = None
    if cfg.get("cap"):
        cap = int(ctx.fresh_int("subset_max_train", 1, sum(sizes)))
    log = {}
    model = brewlib.StubModel(log, decision_function=bool(cfg.get("calibrate")))
    cal = brewlib.CalRecorder()
    B.calibrate_scores = cal
    B.update_labels = lambda fn, s, tc, fdr: symnp.SArray([0] * len(s), symnp.float64)
    split_rec = []
    real_split = D.OnDiskPsmDataset._split

    def rec_split(self, folds_, rng_):
        r = real_split(self, folds_, rng_)
        split_rec.append([list(int(i) for i in a.items) for a in r])
        return r
    D.OnDiskPsmDataset._split = rec_split
    inputs = dict(files=brewlib.dataset_inputs(syms), folds=folds, cap=cap, perms=gen.log,
                  hashes=[[brewlib.s_crc32(core.SKey((SNum(s["scan"][i]), SNum(s["mass"][i])) if keycols >= 2 else (SNum(s["scan"][i]),))) for i in range(s["n"])] for s in syms],
                  chunk_prediction=B.CHUNK_SIZE_ROWS_PREDICTION, chunk_read_all=B.CHUNK_SIZE_READ_ALL_DATA)
    try:
        _, models, scores, descs = B.brew(dss, model=model, test_fdr=SNum(z3.Real("test_fdr")), folds=folds, max_workers=2, rng=gen, subset_max_train=cap)
    except Unsupported:
        raise
    except (ValueError, RuntimeError) as ex:
        msg = str(ex)
        if "No target PSMs were detected" in msg or "No decoy PSMs were detected" in msg:
            # a training fold without targets or decoys: explicit, documented error; the fold layout made
            # before the run stopped is still checked
            fp = _fold_props(syms, split_rec, folds)
            return PathOutcome(fp, inputs, None, "assert" if fp else "legit_exc", note=type(ex).__name__ + "(" + msg[:40] + ")")
        if "No PSMs were detected" in msg and (_some_training_set_empty(split_rec, folds) or cap is not None):
            # one fold holds every PSM (fewer spectra than folds can separate), or the cap leaves a file's share
            # empty: nothing to train on - explicit error
            fp = _fold_props(syms, split_rec, folds)
            return PathOutcome(fp, inputs, None, "assert" if fp else "legit_exc", note="ValueError(No PSMs: empty training set)")
        return PathOutcome([], inputs, None, "exc", note=type(ex).__name__ + ":" + msg[:80])
    except Exception as ex:
        return PathOutcome([], inputs, None, "exc", note=type(ex).__name__ + ":" + str(ex)[:80])
    finally:
        D.OnDiskPsmDataset._split = real_split
        stubs.MODE[0] = "submission"
    props = []
    # (i) folds: exactly `folds` per file, pairwise disjoint, covering all rows
    for fid, (s, fl) in enumerate(zip(syms, split_rec)):
        flat = [i for f in fl for i in f]
        props.append(("file%d_fold_count" % fid, z3.BoolVal(len(fl) == folds)))
        props.append(("file%d_folds_partition_rows" % fid, z3.BoolVal(sorted(flat) == list(range(s["n"])))))
        foldof = {i: k for k, f in enumerate(fl) for i in f}
        # (ii) equal spectrum key => same fold
        for a in range(s["n"]):
            for b in range(a + 1, s["n"]):
                if foldof.get(a) != foldof.get(b):
                    props.append(("file%d_rows_%d_%d_same_spectrum_same_fold" % (fid, a, b), z3.Not(brewlib.key_eq(s, a, b))))
        s["foldof"] = foldof
    props.append(("model_count", z3.BoolVal(len(models) == folds and [m.fold for m in models] == list(range(1, folds + 1)))))
    # (iii)/(iv) training data of model k = subset of the complement of fold k (in every file), never its spectra
    for m in models:
        k = m.fold - 1
        trained = m.trained_on or []
        for (fid, i) in trained:
            s = syms[int(fid)]
            props.append(("model%d_not_trained_on_heldout_row_%d_%d" % (m.fold, fid, i), z3.BoolVal(s["foldof"].get(i) != k)))
        if cap is None:
            exp = sorted((fid, i) for fid, s in enumerate(syms) for i in range(s["n"]) if s["foldof"].get(i) != k)
            props.append(("model%d_trained_on_all_other_folds" % m.fold, z3.BoolVal(sorted((int(f), i) for f, i in trained) == exp)))
        else:
            props.append(("model%d_training_rows_distinct" % m.fold, z3.BoolVal(len(set(trained)) == len(trained))))
    # final scores: row r scored by the model of its fold, which saw neither r nor its spectrum
    pred_by = {}
    for uid, rows in log.get("predicts", []):
        for fr in rows:
            pred_by.setdefault((int(fr[0]), fr[1]), []).append(uid)
    for fid, s in enumerate(syms):
        sc = scores[fid]
        props.append(("file%d_score_count" % fid, z3.BoolVal(len(sc) == s["n"])))
        if len(sc) != s["n"]:
            continue
        for r in range(s["n"]):
            k = s["foldof"].get(r)
            m = models[k] if k is not None and k < len(models) else None
            term = core._z(sc.items[r])
            raw = z3.Real("score_m%s_f%s_r%d" % (k + 1 if k is not None else None, fid, r))
            if cfg.get("calibrate"):
                # the returned value is the calibration output whose input was the raw score of the model of r's fold
                ok = []
                for (ins, tg, outs) in cal.calls:
                    for a, b, o in zip(ins, tg, outs):
                        ok.append(z3.And(core._z(o) == term, core._z(a) == raw, core.zbool(b) == s["lab"][r]))
                props.append(("file%d_row%d_calibrated_score_of_its_fold_model" % (fid, r), z3.Or(ok) if ok else z3.BoolVal(False)))
            else:
                props.append(("file%d_row%d_scored_by_its_fold_model" % (fid, r), term == raw))
            props.append(("file%d_row%d_predicted_once" % (fid, r), z3.BoolVal(pred_by.get((fid, r)) == [k + 1 if k is not None else None])))
            if m is not None:
                for (f2, j) in (m.trained_on or []):
                    if int(f2) == fid:
                        props.append(("file%d_row%d_model_never_saw_its_spectrum(row %d)" % (fid, r, j), z3.Not(brewlib.key_eq(s, r, j))))
    if cfg.get("calibrate"):
        # calibration is applied once per non-empty fold, on exactly that fold's rows (every file separately)
        expected_calls = [(fid, k) for fid, s in enumerate(syms) for k in range(folds) if any(s["foldof"].get(r) == k for r in range(s["n"]))]
        props.append(("calibration_calls", z3.BoolVal(len(cal.calls) == len(expected_calls))))
        for ci, ((ins, tg, outs), (fid, k)) in enumerate(zip(cal.calls, expected_calls)):
            s = syms[fid]
            rows = sorted(r for r in range(s["n"]) if s["foldof"].get(r) == k)
            want = {z3.Real("score_m%s_f%s_r%d" % (k + 1, fid, r)).get_id() for r in rows}
            got = {core._z(a).get_id() for a in ins}
            props.append(("calibration_call%d_is_fold%d_of_file%d" % (ci, k, fid), z3.BoolVal(got == want and len(ins) == len(rows))))
    props.append(("descs_default", z3.BoolVal(list(descs) == [True] * len(syms))))
    return PathOutcome(props, inputs, None)


def _fold_props(syms, split_rec, folds):
    """fold-layout obligations that need no scores: usable when the run ended in a documented error"""
    import z3
    props = []
    for fid, (s, fl) in enumerate(zip(syms, split_rec)):
        flat = [i for f in fl for i in f]
        props.append(("file%d_fold_count" % fid, z3.BoolVal(len(fl) == folds)))
        props.append(("file%d_folds_partition_rows" % fid, z3.BoolVal(sorted(flat) == list(range(s["n"])))))
        foldof = {i: k for k, f in enumerate(fl) for i in f}
        for a in range(s["n"]):
            for b in range(a + 1, s["n"]):
                if foldof.get(a) != foldof.get(b):
                    props.append(("file%d_rows_%d_%d_same_spectrum_same_fold" % (fid, a, b), z3.Not(brewlib.key_eq(s, a, b))))
    return props


# ---------------------------------------------------------------- the real mokapot.Model inside brew --
_IDLOG = []


def _id_estimator():
    from sklearn.base import BaseEstimator

    class IdEstimator(BaseEstimator):
        """scikit-learn estimator that records, per estimator OBJECT, which rows it was fitted on and which
        rows it scored; its scores are fresh symbols per (number of fits so far, row)."""

        def __init__(self, tag=0):
            self.tag = tag

        def fit(self, X, y):
            _IDLOG.append(("fit", id(self), [int(r[0]) for r in X.rows]))
            return self

        def decision_function(self, X):
            import z3
            from symx import symnp, core
            nfit = sum(1 for e in _IDLOG if e[0] == "fit")
            ids = [int(r[0]) for r in X.rows]
            _IDLOG.append(("score", id(self), ids))
            return symnp.SArray([core.SNum(z3.Real("sc_%d_%d" % (nfit, i))) for i in ids], symnp.float64)
    return IdEstimator


class _IdScores:
    def __symx_eval__(self, m):
        import z3
        from symx import core
        out, nfit = [], 0
        for kind, _, ids in _IDLOG:
            if kind == "fit":
                nfit += 1
            elif kind == "score":
                out += [[nfit, i, core.to_jsonable(core.eval_model(m, z3.Real("sc_%d_%d" % (nfit, i))))] for i in ids]
        return out


def sym_real_model(ctx, cfg):
    """brew() with the REAL mokapot.Model (Percolator training loop, one iteration) around a recording
    scikit-learn estimator: in the prediction phase no estimator OBJECT may score a PSM that was in the
    table of its most recent fit (fold models sharing one estimator, or a model fitted once more after
    its fold's training, show up here)."""
    import z3
    from symx import symnp, sympd, vfs, stubs, core, world
    from symx.core import SNum, PathOutcome, Unsupported
    from checks.c11 import tdc_by_spec
    from checks import c12
    B, D, P, U, T, Q = brewlib.setup()
    M, _, _ = c12.setup()
    vfs.reset()
    brewlib.HASHES.clear()
    del _IDLOG[:]
    n, folds = cfg["n"], cfg["folds"]
    ds, s = brewlib.make_dataset(ctx, D, n, 0, 2, "pm1")
    for i, z in enumerate(s["lab"]):
        ctx.assume(z == z3.BoolVal(i % 2 == 0))
    for i in range(n - 1):  # fold layout is decided by the other harnesses: distinct spectra in a fixed hash order
        ctx.assume(z3.And(s["scan"][i] != s["scan"][i + 1],
                          brewlib.s_crc32(core.SKey((SNum(s["scan"][i]), SNum(s["mass"][i])))).z < brewlib.s_crc32(core.SKey((SNum(s["scan"][i + 1]), SNum(s["mass"][i + 1])))).z))
    B.CHUNK_SIZE_ROWS_PREDICTION = B.CHUNK_SIZE_READ_ALL_DATA = n + 1
    stubs.MODE[0] = "submission"
    B.update_labels = lambda fn, s_, tc, fdr: symnp.SArray([0] * len(s_), symnp.float64)
    # other harnesses that ran in this worker process may have left their stubs behind: this one needs the real ones
    B.calibrate_scores, B._predict, B._fit_model = brewlib.ORIG["calibrate_scores"], brewlib.ORIG["_predict"], brewlib.ORIG["_fit_model"]
    Est = _id_estimator()
    M.clone = lambda e: e if getattr(e, "is_scaler", False) else Est(e.tag)
    fdr = z3.Real("train_fdr")
    ctx.assume(z3.And(fdr > 0, fdr <= 1))
    real_tdc = Q.__dict__["tdc"]
    Q.__dict__["tdc"] = tdc_by_spec(ctx)
    inputs = dict(files=brewlib.dataset_inputs([s]), folds=folds, train_fdr=SNum(fdr), scores=_IdScores(),
                  hashes=[[brewlib.s_crc32(core.SKey((SNum(s["scan"][i]), SNum(s["mass"][i])))) for i in range(n)]])
    orig_predict = B._predict

    def marked_predict(*a, **k):
        _IDLOG.append(("prediction phase", None, []))
        return orig_predict(*a, **k)
    B._predict = marked_predict
    try:
        model = M.Model(Est(7), scaler="as-is", train_fdr=SNum(fdr), max_iter=1, direction="f1", override=True, shuffle=False, rng=symnp.Generator("identity"))
        _, models, scores, _ = B.brew([ds], model=model, test_fdr=SNum(z3.Real("test_fdr")), folds=folds, max_workers=1, rng=symnp.Generator("identity"))
    except Unsupported:
        raise
    except (ValueError, RuntimeError) as ex:
        msg = str(ex)
        if any(k in msg for k in ("No target PSMs", "No decoy PSMs", "No PSMs", "Model performs worse", "no target PSMs could be found")):
            return PathOutcome([], inputs, None, "legit_exc", note=type(ex).__name__ + "(" + msg[:40] + ")")
        return PathOutcome([], inputs, None, "exc", note=type(ex).__name__ + ":" + msg[:80])
    except Exception as ex:
        return PathOutcome([], inputs, None, "exc", note=type(ex).__name__ + ":" + str(ex)[:80])
    finally:
        Q.__dict__["tdc"] = real_tdc
        B._predict = orig_predict
    props = _id_props(_IDLOG, n)
    props.append(("one_model_per_fold", z3.BoolVal(len(models) == folds and len({id(m) for m in models}) == folds)))
    return PathOutcome(props, inputs, None)


def _id_props(log, n):
    import z3
    if not any(e[0] == "prediction phase" for e in log):
        # training failed in some fold: brew re-scores with the original model or returns zeros (C07's business);
        # no fold model predicts anything
        return []
    last_fit_pos = max([i for i, e in enumerate(log) if e[0] == "prediction phase"], default=len(log))
    last_fit = {}
    props = []
    scored = []
    for pos, (kind, eid, ids) in enumerate(log):
        if kind == "fit":
            last_fit[eid] = set(ids)
        elif kind == "score" and pos > last_fit_pos:
            seen = sorted(set(ids) & last_fit.get(eid, set()))
            props.append(("prediction_of_rows_%s_by_an_estimator_that_was_not_fitted_on_them (fitted on %s)" % (ids, sorted(last_fit.get(eid, set()))), z3.BoolVal(not seen and eid in last_fit)))
            scored += ids
    props.append(("every_psm_predicted_once", z3.BoolVal(sorted(scored) == list(range(n)))))
    return props


def real_real_model(cfg, inp):
    import tempfile
    import numpy as np
    import mokapot
    from sklearn.base import BaseEstimator
    from mokapot.model import Model
    folds = int(inp["folds"])
    table = {(int(k), int(r)): float(v) for k, r, v in inp["scores"]}
    log = []

    class Rec(BaseEstimator):
        def __init__(self, tag=0):
            self.tag = tag

        def fit(self, X, y):
            log.append(("fit", id(self), [int(round(float(r[0]))) for r in np.asarray(X)]))
            return self

        def decision_function(self, X):
            nfit = sum(1 for e in log if e[0] == "fit")
            ids = [int(round(float(r[0]))) for r in np.asarray(X)]
            log.append(("score", id(self), ids))
            return np.array([table.get((nfit, i), 0.0) for i in ids], dtype=float)
    rows = inp["files"][0]
    scan, mass = realize_keys(rows, inp["hashes"][0])
    with tempfile.TemporaryDirectory(prefix="verif_c02m_") as d:
        p, df = brewlib.real_dataset(None, d, 0, dict(rows, scan=scan, mass=mass), "pm1")
        Bm = __import__("sys").modules["mokapot.brew"]
        orig_predict = Bm._predict

        def marked_predict(*a, **k):
            log.append(("prediction phase", None, []))
            return orig_predict(*a, **k)
        Bm._predict = marked_predict
        try:
            ds = mokapot.read_pin(p, max_workers=1)[0]
            model = Model(Rec(7), scaler="as-is", train_fdr=float(inp["train_fdr"]), max_iter=1, direction="f1", override=True, shuffle=False, rng=1)
            _, models, scores, _ = mokapot.brew([ds], model=model, test_fdr=1.0, folds=folds, max_workers=1, rng=scripted_rng([]))
        except (ValueError, RuntimeError) as ex:
            return dict(exception=repr(ex), violation=None)
        except Exception as ex:
            return dict(exception=repr(ex), violation="brew with a mokapot.Model raised %r" % (ex,))
        finally:
            Bm._predict = orig_predict
    n = len(rows["scan"])
    last_fit_pos = max([i for i, e in enumerate(log) if e[0] == "prediction phase"], default=len(log))
    last_fit = {}
    for pos, (kind, eid, ids) in enumerate(log):
        if kind == "fit":
            last_fit[eid] = set(ids)
        elif kind == "score" and pos > last_fit_pos:
            seen = sorted(set(ids) & last_fit.get(eid, set()))
            if seen or eid not in last_fit:
                return dict(violation="PSMs %s are scored by an estimator object whose most recent fit was on rows %s: they were part of its training table (%d fold models, %d distinct estimator objects)"
                                      % (seen or ids, sorted(last_fit.get(eid, set())), len(models), len({id(m.estimator) for m in models})))
    return dict(outputs=None, violation=None)


def _some_training_set_empty(split_rec, folds):
    if not split_rec:
        return False
    for k in range(folds):
        if all(len(fl) > k and sum(len(f) for f in fl) == len(fl[k]) for fl in split_rec):
            return True
    return False


def harnesses(tier):
    from symx.runner import Harness
    B, D, P, U, T, Q = brewlib.setup()
    hs = []
    funcs = [B.brew, B.make_train_sets, B._predict, B._fit_model, B._create_psms, B.get_index_values, B.predict_fold, D.OnDiskPsmDataset._split,
             P.parse_in_chunks, P.get_rows_from_dataframe, P.concat_and_reindex_chunks, D.LinearPsmDataset.__init__]
    stubs = ["model -> recording duck-typed model, score(fold model, row) a fresh symbol", "zlib.crc32 -> uninterpreted function, injective on the keys of a run",
             "joblib.Parallel -> sequential tasks (nondeterministic order where stated)", "rng -> identity (quick) / arbitrary permutation family (where stated)",
             "update_labels -> zeros (tail checked by C07)", "calibrate_scores -> tagging recorder (kernel checked by C11)", "files -> VFS through the real reader classes"]

    def add(name, cfg, rate=0.1):
        hs.append(Harness("brew[%s]" % name, cfg, sym, real="brew", functions=funcs, bounds=cfg, stubs=stubs,
                          assumptions=["ensemble mode off", "crc32 collisions between different spectrum keys outside the claim",
                                       "a training fold lacking targets or decoys ends in the documented ValueError"], sample_rate=rate))
    if tier == "quick":
        add("n=4,folds=2", dict(n=4, folds=2))
        add("n=4,folds=2,calibrate", dict(n=4, folds=2, calibrate=True))
        add("n=4,folds=3,fixed labels", dict(n=4, folds=3, fixed_labels=True))
        add("n=3,folds=2,2 files", dict(n=3, folds=2, files=2, sizes=[3, 2]))
        add("n=4,folds=2,cap,rng,fixed labels", dict(n=4, folds=2, cap=True, rng=True, fixed_labels=True))
        add("n=4,folds=2,one key column,fixed labels", dict(n=4, folds=2, keycols=1, fixed_labels=True))
        add("n=4,folds=2,file-name column in the spectrum key,fixed labels", dict(n=4, folds=2, filecol=True, fixed_labels=True))
        add("n=4+2,folds=2,2 files,cap,fixed labels", dict(n=4, folds=2, files=2, sizes=[4, 2], cap=True, fixed_labels=True))
        add("n=4,folds=2,prediction chunk symbolic,fixed labels", dict(n=4, folds=2, sym_chunks="prediction", fixed_labels=True))
        add("n=4,folds=2,read chunk symbolic,task order,fixed labels", dict(n=4, folds=2, sym_chunks="read", sched=True, fixed_labels=True))
    else:
        add("n=5,folds=2", dict(n=5, folds=2), 0.02)
        add("n=5,folds=3,calibrate", dict(n=5, folds=3, calibrate=True), 0.02)
        add("n=4,folds=3,rng", dict(n=4, folds=3, rng=True), 0.02)
        add("n=4,folds=2,2 files", dict(n=4, folds=2, files=2, sizes=[3, 3]), 0.02)
        add("n=4,folds=2,cap,rng", dict(n=4, folds=2, cap=True, rng=True), 0.02)
        add("n=4,folds=2,one key column", dict(n=4, folds=2, keycols=1), 0.05)
        add("n=4,folds=2,prediction chunk symbolic", dict(n=4, folds=2, sym_chunks="prediction"), 0.02)
        add("n=4,folds=2,read chunk symbolic,task order", dict(n=4, folds=2, sym_chunks="read", sched=True), 0.02)
        add("n=3,folds=3,2 files,task order", dict(n=3, folds=3, files=2, sizes=[3, 3], sched=True), 0.02)
    from checks import c12
    M = c12.setup()[0]
    for n, folds in ([(4, 2)] if tier == "quick" else [(4, 2), (6, 2), (6, 3)]):
        cfg = dict(n=n, folds=folds)
        hs.append(Harness("brew_with_mokapot_Model[n=%d,folds=%d]" % (n, folds), cfg, sym_real_model, real="real_model", functions=[B.brew, B._fit_model, B._predict, M.Model.fit, M.Model.decision_function, M._find_hyperparameters],
                          bounds=dict(N=n, folds=folds, max_iter=1), stubs=["estimator -> recording scikit-learn estimator (per OBJECT: rows fitted on, rows scored)", "sklearn.base.clone -> a new estimator object", "tdc -> q-values by the C01 formula", "as the other C02 harnesses"],
                          assumptions=["alternating labels, distinct spectra in a fixed hash order (fold layout: other harnesses)", "one training iteration, shuffling off"], sample_rate=0.1))
    # fold models re-used on the data they were trained on (documented use; CLI --save_models / --load_models): the folds must
    # hold the same PSMs whatever the seed of the second run - harness shared with C08
    from checks import c08
    hs += c08.harnesses(tier, for_c02=True)
    return hs


BUDGET = {"quick": 900, "thorough": 3400}


# ------------------------------------------------------------------ concrete --
def realize_keys(rows, hashes):
    """Concrete (scan, mass) per row with the model's equality pattern whose REAL zlib.crc32
    (computed exactly as mokapot does) realises the order of the model's hash values."""
    import zlib
    import numpy as np
    n = len(rows["scan"])
    keycols = rows.get("keycols", 2)
    cls = {}
    for i in range(n):
        k = (rows["scan"][i], rows["mass"][i]) if keycols >= 2 else (rows["scan"][i],)
        cls.setdefault(k, []).append(i)
    order = sorted(cls, key=lambda k: hashes[cls[k][0]])
    pool = []
    for a in range(1, 60):
        for b in range(1, 8):
            arr = np.array([[a, float(b)]]) if keycols >= 2 else np.array([[a]])
            x = arr[0]
            h = zlib.crc32(str((x[0], x[1])).encode()) if keycols >= 2 else zlib.crc32(str((x[0],)).encode())
            pool.append((h, a, b))
    pool.sort()
    step = max(1, len(pool) // (len(order) + 1))
    scan, mass = [0] * n, [0] * n
    for rank, k in enumerate(order):
        _, a, b = pool[(rank + 1) * step - 1]
        for i in cls[k]:
            scan[i], mass[i] = a, b
    return scan, mass


class _RealModel:
    """duck-typed model for the real brew(): records training rows; scripted scores"""

    def __init__(self, log, decision_function):
        class E:
            pass
        self.estimator = E()
        if decision_function:
            self.estimator.decision_function = lambda X: None
        self.log = log
        self.is_trained = False
        self.override = False
        self.best_feat, self.feat_pass, self.desc = "f1", 0, True
        self.fold = None
        self.trained_on = None

    def __deepcopy__(self, memo):
        m = _RealModel(self.log, hasattr(self.estimator, "decision_function"))
        m.is_trained, m.fold, m.trained_on = self.is_trained, self.fold, self.trained_on
        return m

    def fit(self, train_set):
        d = train_set.data
        self.trained_on = [(int(f), int(r)) for f, r in zip(d["fileid"], d["rowid"])]
        self.log.setdefault("fits", []).append((self.fold, list(self.trained_on)))
        self.is_trained = True
        return self

    def predict(self, psms):
        import numpy as np
        d = psms.data
        rows = [(int(f), int(r)) for f, r in zip(d["fileid"], d["rowid"])]
        self.log.setdefault("predicts", []).append((self.fold, rows))
        tg = [bool(x) for x in psms.targets]
        return np.array([1000.0 * self.fold + 10.0 * f + r + 0.25 + (500.0 if t else 0.0) for (f, r), t in zip(rows, tg)], dtype=float)


def scripted_rng(perms):
    import numpy as np

    class Scripted(np.random.Generator):
        def __init__(self):
            super().__init__(np.random.PCG64(0))
            self._perms = [list(p) for p in perms if isinstance(p, list)]

        def _next(self, n):
            if self._perms and len(self._perms[0]) == n:
                return self._perms.pop(0)
            return list(range(n))

        def shuffle(self, x, axis=0):
            p = self._next(len(x))
            x[:] = np.asarray(x)[p]

        def permutation(self, x, axis=0):
            x = np.arange(x) if isinstance(x, (int, np.integer)) else np.asarray(x)
            return x[self._next(len(x))]

        def choice(self, a, size=None, replace=True, **kw):
            a = np.arange(a) if isinstance(a, (int, np.integer)) else np.asarray(a)
            if not replace and size is not None and size > len(a):
                raise ValueError("Cannot take a larger sample than population when 'replace=False'")
            return a[self._next(len(a))][:size]
    return Scripted()


def real_brew(cfg, inp):
    import tempfile
    import numpy as np
    import mokapot
    import mokapot.brew as Bm
    B = __import__("sys").modules["mokapot.brew"]
    folds = int(inp["folds"])
    log = {}
    with tempfile.TemporaryDirectory(prefix="verif_c02_") as d:
        dss, keys = [], []
        copies = 25 if cfg.get("filecol") and cfg.get("_failed") else 1
        if copies > 1:
            inp = dict(inp, files=[dict(f) for f in inp["files"]])
        for fid, rows in enumerate(inp["files"]):
            scan, mass = realize_keys(rows, inp["hashes"][fid])
            if copies > 1:
                # a counterexample that hangs on the ADDRESSES of key objects shows only with some probability per
                # spectrum: it is replayed on 25 shifted copies of the solver's table (same structure, other scan numbers)
                scan = [int(x) + 1000 * c for c in range(copies) for x in scan]
                mass = [x for c in range(copies) for x in mass]
                for k in ("labels", "f1"):
                    inp["files"][fid][k] = list(rows[k]) * copies
                rows = inp["files"][fid]
            rows = dict(rows, scan=scan, mass=mass)
            p, df = brewlib.real_dataset(None, d, fid, rows, cfg.get("labels", "pm1"), filecol=bool(cfg.get("filecol")))
            keys.append(list(zip(scan, mass)) if rows.get("keycols", 2) >= 2 else [(s,) for s in scan])
            try:
                dss.append(mokapot.read_pin(p, max_workers=1)[0])
            except Exception as ex:
                return dict(exception=repr(ex), violation="read_pin raised %r" % (ex,))
        old = (B.CHUNK_SIZE_ROWS_PREDICTION, B.CHUNK_SIZE_READ_ALL_DATA)
        B.CHUNK_SIZE_ROWS_PREDICTION, B.CHUNK_SIZE_READ_ALL_DATA = int(inp["chunk_prediction"]), int(inp["chunk_read_all"])
        import mokapot.dataset as Dm
        split_rec = []
        orig_split = Dm.OnDiskPsmDataset._split

        def rec_split(self, f_, r_):
            res = orig_split(self, f_, r_)
            split_rec.append([[int(i) for i in a] for a in res])
            return res
        Dm.OnDiskPsmDataset._split = rec_split
        try:
            _, models, scores, descs = mokapot.brew(dss, model=_RealModel(log, bool(cfg.get("calibrate"))), test_fdr=1.0, folds=folds, max_workers=2 if cfg.get("sched") else 1,
                                                    rng=scripted_rng(inp.get("perms") or []), subset_max_train=inp.get("cap"))
        except (ValueError, RuntimeError) as ex:
            msg = str(ex)
            if "No target PSMs were detected" in msg or "No decoy PSMs were detected" in msg or "no target PSMs could be found below" in msg:
                return dict(exception=type(ex).__name__ + ":" + msg[:60], violation=_leaks(log, keys, split_rec, folds))
            if "No PSMs were detected" in msg and (_some_training_set_empty(split_rec, folds) or inp.get("cap") is not None):
                return dict(exception=type(ex).__name__ + ":" + msg[:60], violation=_leaks(log, keys, split_rec, folds))
            return dict(exception=repr(ex), violation="brew raised %r (keys %s, folds %d, prediction chunk %s)" % (ex, keys, folds, inp["chunk_prediction"]))
        except Exception as ex:
            return dict(exception=repr(ex), violation="brew raised %r (keys %s, folds %d, prediction chunk %s)" % (ex, keys, folds, inp["chunk_prediction"]))
        finally:
            B.CHUNK_SIZE_ROWS_PREDICTION, B.CHUNK_SIZE_READ_ALL_DATA = old
            Dm.OnDiskPsmDataset._split = orig_split
    if len(models) != folds:
        return dict(violation="%d models for %d folds" % (len(models), folds))
    v = _leaks(log, keys, split_rec, folds)
    if v:
        return dict(violation=v)
    pred = {}
    for fold, rows in log.get("predicts", []):
        for fr in rows:
            pred.setdefault(fr, []).append(fold)
    trained = {m.fold: set(m.trained_on or []) for m in models}
    for fid, ks in enumerate(keys):
        n = len(ks)
        if len(scores[fid]) != n:
            return dict(violation="file %d: %d scores for %d PSMs" % (fid, len(scores[fid]), n))
        for r in range(n):
            ms = pred.get((fid, r), [])
            if len(ms) != 1:
                return dict(violation="file %d row %d predicted by models %s" % (fid, r, ms))
            m = ms[0]
            lab_r = bool(inp["files"][fid]["labels"][r])
            if not cfg.get("calibrate") and abs(float(scores[fid][r]) - (1000.0 * m + 10.0 * fid + r + 0.25 + (500.0 if lab_r else 0.0))) > 1e-9:
                return dict(violation="file %d row %d: returned score %r is not the score of the model that predicted it (%d)" % (fid, r, float(scores[fid][r]), m))
            for (f2, j) in trained[m]:
                if f2 == fid and ks[j] == ks[r]:
                    return dict(violation="file %d row %d (spectrum %s) scored by model %d which was trained on row %d of the same spectrum" % (fid, r, ks[r], m, j))
        for a in range(n):
            for b in range(n):
                if ks[a] == ks[b] and pred[(fid, a)] != pred[(fid, b)]:
                    return dict(violation="file %d: rows %d and %d of one spectrum are in different folds" % (fid, a, b))
    if inp.get("cap") is None:
        for m in models:
            heldout = {fr for fr, ms in pred.items() if ms == [m.fold]}
            allrows = set(pred)
            if trained[m.fold] != allrows - heldout:
                return dict(violation="model %d trained on %s, expected the complement of its fold %s" % (m.fold, sorted(trained[m.fold]), sorted(allrows - heldout)))
    return dict(outputs=None, violation=None)


def _leaks(log, keys, split_rec, folds=None):
    """integrity checks that need no scores: usable even when the run ended in a documented error"""
    for fid, fl in enumerate(split_rec):
        foldof = {i: k for k, f in enumerate(fl) for i in f}
        ks = keys[fid]
        if folds is not None and len(fl) != folds:
            return "file %d: %d folds were requested, the PSMs were split into %d: %s (spectrum keys %s)" % (fid, folds, len(fl), fl, ks)
        if sorted(i for f in fl for i in f) != list(range(len(ks))):
            return "file %d: the folds %s are not a partition of the %d PSMs" % (fid, fl, len(ks))
        for a in range(len(ks)):
            for b in range(len(ks)):
                if ks[a] == ks[b] and foldof.get(a) != foldof.get(b):
                    return "file %d: rows %d and %d of one spectrum are in different folds %s" % (fid, a, b, fl)
    for fold, trained in log.get("fits", []):
        for (fid, i) in trained:
            if fid < len(split_rec) and i in split_rec[fid][fold - 1]:
                return "model %d trained on row %d of file %d, which is in its held-out fold" % (fold, i, fid)
    return None


REAL = {"brew": real_brew, "real_model": real_real_model, "rerun": lambda cfg, inp: __import__("checks.c08", fromlist=["x"]).real_rerun(cfg, inp)}
