"""C03 - competition and rollup keep exactly the best PSM per spectrum / per entity.

Real code executed symbolically (all stages together, on the VFS): mokapot.confidence.
assign_confidence, create_sorted_file_iterator, _save_sorted_metadata_chunks, utils.merge_sort,
get_next_row, csv_row_iterator, get_dataframe_from_records, LinearConfidence._assign_confidence,
Confidence.write_to_disk, confidence_writer.write_confidences, utils.convert_targets_column,
plus the real reader/writer classes; separately utils.groupby_max and brew_rollup.do_rollup."""
import os

from . import conflib

ID = "C03"
LEVELS = {"psms": "psms", "peptides": "peptides", "modifiedpeptides": "modifiedpeptides"}


def run_confidence(ctx, cfg, C, syms, pss, scores, descs=None, deduplication=True, do_rollup=True, decoys=True, prefixes=None, proteins=None, dest="/vfs/out"):
    """Calls the real assign_confidence with q-values constrained by the C01 formula and
    PEPs replaced by tagging symbols. Returns the PepRecorder."""
    from symx import vfs, symnp
    from checks.c11 import tdc_by_spec
    Q = conflib.setup()[5]
    pr = conflib.PepRecorder()
    C.peps_from_scores = pr
    real_tdc = Q.__dict__["tdc"]
    Q.__dict__["tdc"] = tdc_by_spec(ctx)
    try:
        C.assign_confidence(pss, max_workers=2, scores=scores, descs=descs if descs is not None else [True] * len(pss), eval_fdr=0.01,
                            dest_dir=vfs.VPath(dest), file_root="", prefixes=prefixes if prefixes is not None else [None] * len(pss),
                            decoys=decoys, deduplication=deduplication, do_rollup=do_rollup, proteins=proteins, rng=symnp.Generator("identity"))
    finally:
        Q.__dict__["tdc"] = real_tdc
    return pr


def output_props(s, prefix, dedup, rollup, decoys, dest="/vfs/out", higher_is_better=True, tagfilter=None):
    """Oracle of the statement over the result files of one collection. tagfilter: only the rows whose
    PSMId starts with it belong to this collection (several collections written into the same files)."""
    import z3
    from symx import vfs, core
    from checks import spec
    props = []
    n = s["n"]
    idx = {pid: i for i, pid in enumerate(s["ids"])}
    pre = (prefix + ".") if prefix else ""
    levels = ["psms"] + ((["peptides"] + (["modifiedpeptides"] if s["extra"] else [])) if rollup else [])
    base = list(range(n))
    psm_retained = None
    for level in levels:
        tfile = vfs.get("%s/%stargets.%s" % (dest, pre, level))
        dfile = vfs.get("%s/%sdecoys.%s" % (dest, pre, level))
        props.append(("%s%s_target_file_written" % (pre, level), z3.BoolVal(tfile is not None)))
        props.append(("%s%s_decoy_file_iff_requested" % (pre, level), z3.BoolVal((dfile is not None) == bool(decoys))))
        if tfile is None or (decoys and dfile is None):
            continue
        want_cols = ["PSMId", "peptide"] + (["ModifiedPeptide"] if s["extra"] else []) + ["score", "q-value", "posterior_error_prob", "proteinIds"]
        props.append(("%s%s_header" % (pre, level), z3.BoolVal(list(tfile.columns) == want_cols)))
        if list(tfile.columns) != want_cols:
            continue
        files = [("targets", tfile, True)] + ([("decoys", dfile, False)] if decoys else [])
        out_rows = []
        for name, tab, is_t in files:
            recs = tab.to_dict(orient="records")
            if tagfilter:
                recs = [r for r in recs if str(r["PSMId"]).startswith(tagfilter)]
            prev = None
            for r in recs:
                pid = r["PSMId"]
                if pid not in idx:
                    props.append(("%s%s_%s_row_is_an_input_psm" % (pre, level, name), z3.BoolVal(False)))
                    continue
                i = idx[pid]
                out_rows.append((i, r, is_t))
                # routed by target flag; identifier, peptide, proteins and score of one and the same input PSM
                props.append(("%s%s_%s_row%d_flag" % (pre, level, name, i), s["lab"][i] if is_t else z3.Not(s["lab"][i])))
                props.append(("%s%s_row%d_fields" % (pre, level, i), z3.And(core._z(r["peptide"]) == s["pep"][i], core._z(r["score"]) == s["score"][i],
                                                                      z3.BoolVal(r["proteinIds"] == s["prots"][i]))))
                if prev is not None:
                    props.append(("%s%s_%s_sorted" % (pre, level, name), (s["score"][prev] >= s["score"][i]) if higher_is_better else (s["score"][prev] <= s["score"][i])))
                prev = i
        got = [i for i, _, _ in out_rows]
        props.append(("%s%s_no_row_twice" % (pre, level), z3.BoolVal(len(set(got)) == len(got))))
        # retained set at this level = rows in the files (+ unwritten decoys when decoys are not requested)
        if decoys:
            retained = got
            props += [("%s%s" % (pre, n_), p) for n_, p in conflib.level_oracle(s, "all" if (level == "psms" and not dedup) else level, retained, base, higher_is_better)]
        else:
            # decoys are not written: any decoy rows may complete the retained set; existence of a consistent completion
            # is checked through the target rows only (winner among ALL base rows of its entity, targets and decoys alike)
            retained = got
            better = (lambda a, b: a >= b) if higher_is_better else (lambda a, b: a <= b)
            strictly = (lambda a, b: a > b) if higher_is_better else (lambda a, b: a < b)
            for i in got:
                for j in range(n):
                    if j != i and not (level == "psms" and not dedup):
                        # j certainly survived the PSM level if it strictly beats every other PSM of its spectrum (or de-duplication is off)
                        survived = z3.BoolVal(True) if (level == "psms" or not dedup) else z3.And([z3.Implies(conflib.key_eq(s, j, k), strictly(s["score"][j], s["score"][k])) for k in range(n) if k != j])
                        props.append(("%s%s_row_%d_is_best_of_its_entity(vs %d)" % (pre, level, i, j), z3.Implies(z3.And(conflib.level_eq(s, level, i, j), survived),
                                      better(s["score"][i], s["score"][j]))))
        # q-values: the C01 formula evaluated on exactly the rows retained at this level
        if decoys and len(set(got)) == len(got) and got:
            qs = spec.spec_q_terms([s["score"][i] for i in got], [s["lab"][i] for i in got], higher_is_better)
            for (i, r, _), q in zip(out_rows, qs):
                props.append(("%s%s_row%d_qvalue_on_retained_rows" % (pre, level, i), core._z(r["q-value"]) == q))
        if level == "psms":
            # every higher level picks its best row among the PSMs retained at PSM level
            base = list(got) if decoys else base
    return props


def sym_confidence(ctx, cfg):
    import z3
    from symx import vfs, symnp, stubs, core
    from symx.core import SNum, SBool, PathOutcome, Unsupported
    C, W, U, T, D, Q = conflib.setup()
    vfs.reset()
    ncoll = cfg.get("collections", 1)
    sizes = cfg.get("sizes") or [cfg["n"]] * ncoll
    pss, syms = [], []
    for cid in range(ncoll):
        ps, s = conflib.make_collection(ctx, sizes[cid], cid, cfg.get("labels", "bool"), cfg.get("extra_level", False), cfg.get("suffix", ".pin"), mass_text=bool(cfg.get("mass_text")))
        pss.append(ps)
        syms.append(s)
    dedup = bool(SBool(z3.Bool("deduplication"))) if cfg.get("dedup") is None else cfg["dedup"]
    rollup = bool(SBool(z3.Bool("do_rollup"))) if cfg.get("rollup") is None else cfg["rollup"]
    decoys = bool(SBool(z3.Bool("decoys"))) if cfg.get("decoys") is None else cfg["decoys"]
    big = max(sizes) + 1
    C.CONFIDENCE_CHUNK_SIZE = int(ctx.fresh_int("confidence_chunk", 1, big)) if cfg.get("sym_chunk") else big
    U.MERGE_SORT_CHUNK_SIZE = big
    prefixes = cfg.get("prefixes") or [None] * ncoll
    scores = [symnp.SArray([SNum(z) for z in s["score"]], symnp.float64) for s in syms]
    inputs = dict(collections=conflib.collection_inputs(syms), deduplication=dedup, do_rollup=rollup, decoys=decoys,
                  confidence_chunk=C.CONFIDENCE_CHUNK_SIZE, prefixes=prefixes)
    try:
        run_confidence(ctx, cfg, C, syms, pss, scores, None, dedup, rollup, decoys, prefixes)
    except Unsupported:
        raise
    except Exception as ex:
        import traceback
        tb = traceback.extract_tb(ex.__traceback__)[-1]
        return PathOutcome([], inputs, None, "exc", note="%s:%s @%s:%d" % (type(ex).__name__, str(ex)[:60], os.path.basename(tb.filename), tb.lineno))
    props = []
    for cid, (s, pre) in enumerate(zip(syms, prefixes)):
        props += [("coll%d_%s" % (cid, n_), p_) for n_, p_ in output_props(s, pre, dedup, rollup, decoys, tagfilter=("c%d_" % cid) if cfg.get("combined") else None)]
    if cfg.get("combined"):
        # without prefixes the collections are appended to the same files: first collection's rows, then the second's
        for p in vfs.listing():
            if p.startswith("/vfs/out/targets.") or p.startswith("/vfs/out/decoys."):
                ids = [str(x) for x in vfs.get(p)._c["PSMId"]]
                tags = [x.split("_")[0] for x in ids]
                props.append(("%s_collections_appended_in_order" % os.path.basename(p), z3.BoolVal(tags == sorted(tags) and all(t in ("c0", "c1") for t in tags))))
    left = [p for p in vfs.listing() if p.startswith("/vfs/out/") and ("scores_metadata" in p or os.path.basename(p).split(".")[0] in ("psms", "peptides", "modifiedpeptides"))]
    props.append(("no_intermediate_file_remains: %s" % left, z3.BoolVal(not left)))
    return PathOutcome(props, inputs, None)


# ---- utils.groupby_max -----------------------------------------------------------
def sym_groupby(ctx, cfg):
    import z3
    from symx import sympd, symnp, core
    from symx.core import SNum, PathOutcome, Unsupported
    C, W, U, T, D, Q = conflib.setup()
    n = cfg["n"]
    zg = [z3.Int("g%d" % i) for i in range(n)]
    zs = [z3.Real("s%d" % i) for i in range(n)]
    for z in zg:
        ctx.assume(z3.And(z >= 0, z <= 2))
    df = sympd.DataFrame({"grp": [SNum(z, (0, 2)) for z in zg], "score": [SNum(z) for z in zs], "id": list(range(n))})
    gen = symnp.Generator("nondet")
    inputs = dict(groups=[SNum(z) for z in zg], scores=[SNum(z) for z in zs], perms=gen.log)
    old = sympd.SAMPLE_MODE[0]
    sympd.SAMPLE_MODE[0] = "nondet"
    try:
        idx = list(U.groupby_max(df, "grp", "score", gen))
    except Unsupported:
        raise
    except Exception as ex:
        return PathOutcome([], inputs, None, "exc", note=type(ex).__name__ + ":" + str(ex)[:80])
    finally:
        sympd.SAMPLE_MODE[0] = old
    s = dict(score=zs, pep=zg, n=n)
    props = [(n_, p) for n_, p in conflib.level_oracle(dict(s, scan=zg, mass=zg, mod=zg), "peptides", [int(i) for i in idx], list(range(n)))]
    return PathOutcome(props, inputs, None)


# ---- brew_rollup.do_rollup ---------------------------------------------------------
class _Cfg:
    pass


def sym_rollup(ctx, cfg):
    import z3
    from symx import vfs, sympd, symnp, world, core
    from symx.core import SNum, PathOutcome, Unsupported
    from checks.c11 import tdc_by_spec
    from checks import spec
    C, W, U, T, D, Q = conflib.setup()
    R = world.mod("mokapot.brew_rollup")
    S = world.mod("mokapot.streaming")
    world.rebind(R, np=symnp, pa=vfs.pa_stub)
    world.rebind(S, np=symnp, pd=sympd, pa=vfs.pa_stub)
    vfs.reset()
    modcol = bool(cfg.get("modcol"))
    base_level = cfg.get("level", "psm")
    rows = []  # (id, is_target, pep, score, mod)
    sizes = cfg["sizes"]  # per source run: (n_targets, n_decoys)
    for f, (nt, nd) in enumerate(sizes):
        for kind, n in (("targets", nt), ("decoys", nd)):
            zs = [z3.Real("s_%d_%s_%d" % (f, kind, i)) for i in range(n)]
            zp = [z3.Int("p_%d_%s_%d" % (f, kind, i)) for i in range(n)]
            zm = [z3.Int("m_%d_%s_%d" % (f, kind, i)) for i in range(n)]
            for a, b in zip(zs, zs[1:]):
                ctx.assume(a >= b)  # result files of assign_confidence are sorted by score
            ids = ["run%d_%s_%d" % (f, kind, i) for i in range(n)]
            cols = {"PSMId": ids, "peptide": [SNum(z) for z in zp]}
            if modcol:
                cols["ModifiedPeptide"] = [SNum(z) for z in zm]
            cols.update({"score": [SNum(z) for z in zs], "q-value": [0.5] * n, "posterior_error_prob": [0.5] * n, "proteinIds": ["prot_" + x for x in ids]})
            if n:
                vfs.put(vfs.VPath("/vfs/src/run%d.%s.%ss" % (f, kind, base_level)), sympd.DataFrame(cols))
            rows += [(ids[i], kind == "targets", zp[i], zs[i], zm[i]) for i in range(n)]
    dst = "/vfs/src" if cfg.get("same_dir") else "/vfs/dst"
    if cfg.get("stale_outputs"):
        # results of an EARLIER rollup over other inputs, left in the directory the tool reads from
        for kind in ("targets", "decoys"):
            st = {"psm_id": ["stale_%s_0" % kind], "peptide": [SNum(z3.Int("stale_pep_%s" % kind))], "score": [SNum(z3.Real("stale_score_%s" % kind))], "q_value": [0.5], "posterior_error_prob": [0.5],
                  "proteinIds": ["prot_stale"]}
            vfs.put(vfs.VPath("%s/rollup.%s.%ss" % (dst, kind, base_level)), sympd.DataFrame(st))
    conf = _Cfg()
    conf.level, conf.src_dir, conf.dest_dir, conf.file_root = base_level, vfs.VPath("/vfs/src"), vfs.VPath(dst), "rollup"
    conf.qvalue_algorithm, conf.peps_algorithm = "tdc", "qvality"
    pr = conflib.PepRecorder(exit_without_decoys=False)  # the rollup tool does not claim to survive a level without decoys
    R.peps_from_scores = pr
    real_tdc = Q.__dict__["tdc"]
    Q.__dict__["tdc"] = tdc_by_spec(ctx)
    inputs = dict(rows=[dict(id=r[0], target=r[1], peptide=SNum(r[2]), score=SNum(r[3]), mod=SNum(r[4])) for r in rows], sizes=sizes, modcol=modcol, level=base_level,
                  same_dir=bool(cfg.get("same_dir")), stale_outputs=bool(cfg.get("stale_outputs")))
    try:
        R.do_rollup(conf)
    except Unsupported:
        raise
    except Exception as ex:
        import traceback
        tb = traceback.extract_tb(ex.__traceback__)[-1]
        return PathOutcome([], inputs, None, "exc", note="%s:%s @%s:%d" % (type(ex).__name__, str(ex)[:60], os.path.basename(tb.filename), tb.lineno))
    finally:
        Q.__dict__["tdc"] = real_tdc
    props = []
    idx = {r[0]: k for k, r in enumerate(rows)}
    s = dict(score=[r[3] for r in rows], pep=[r[2] for r in rows], scan=[r[2] for r in rows], mass=[r[2] for r in rows], mod=[r[4] for r in rows])
    for fname, level, col in ([("modified_peptides", "modifiedpeptides", "modified_peptide")] if modcol else []) + [("peptides", "peptides", "peptide")]:
        tf, dfile = vfs.get("%s/rollup.targets.%s" % (dst, fname)), vfs.get("%s/rollup.decoys.%s" % (dst, fname))
        props.append(("%s_rollup_files_written" % fname, z3.BoolVal(tf is not None and dfile is not None)))
        if tf is None or dfile is None:
            continue
        got = []
        for name, tab, is_t in (("targets", tf, True), ("decoys", dfile, False)):
            prev = None
            for r in tab.to_dict(orient="records"):
                k = idx.get(r.get("psm_id"))
                props.append(("%s_%s_row_is_an_input_row" % (fname, name), z3.BoolVal(k is not None and rows[k][1] == is_t)))
                if k is None:
                    continue
                props.append(("%s_row_%s_fields" % (fname, rows[k][0]), z3.And(core._z(r["peptide"]) == rows[k][2], core._z(r["score"]) == rows[k][3], z3.BoolVal(r["proteinIds"] == "prot_" + rows[k][0]))))
                if prev is not None:
                    props.append(("%s_%s_sorted" % (fname, name), rows[prev][3] >= rows[k][3]))
                prev = k
                got.append((k, r))
        ks = [k for k, _ in got]
        props += [("%s_%s" % (fname, n_), p_) for n_, p_ in conflib.level_oracle(s, level, ks, list(range(len(rows))))]
        if ks and len(set(ks)) == len(ks):
            qs = spec.spec_q_terms([rows[k][3] for k in ks], [z3.BoolVal(rows[k][1]) for k in ks], True)
            for (k, r), q in zip(got, qs):
                props.append(("%s_row_%s_qvalue_on_retained_rows" % (fname, rows[k][0]), core._z(r["q_value"]) == q))
    return PathOutcome(props, inputs, None)


def harnesses(tier):
    from symx.runner import Harness
    C, W, U, T, D, Q = conflib.setup()
    hs = []
    funcs = [C.assign_confidence, C.create_sorted_file_iterator, C._save_sorted_metadata_chunks, U.merge_sort, U.get_next_row, U.csv_row_iterator, U.get_dataframe_from_records,
             C.LinearConfidence._assign_confidence, C.Confidence.write_to_disk, W.write_confidences, U.convert_targets_column, U.create_chunks]
    stubs = ["files -> VFS through the real reader/writer classes", "q-values -> fresh symbols constrained by the C01 formula on the arrays the code passes (C01 discharges tdc)",
             "peps_from_scores -> tagging symbols (C06 not applicable)", "joblib.Parallel -> sequential tasks", "str([...]) hash keys -> symbolic keys (constant hash, symbolic equality)"]

    def add(name, cfg, rate=0.05):
        hs.append(Harness("confidence[%s]" % name, cfg, sym_confidence, real="confidence", functions=funcs, bounds=cfg, stubs=stubs,
                          assumptions=["scores finite reals; with exact ties inside a group any tied winner is accepted", "sqlite / FlashLFQ writers and protein level outside (protein level: C15)",
                                       "descs = True (lower-is-better scores: C07)"], sample_rate=rate))
    if tier == "quick":
        add("n=3,all switches", dict(n=3))
        add("n=2,2 collections with prefixes", dict(n=2, collections=2, prefixes=["a", "b"], dedup=True, rollup=True, decoys=True))
        add("n=3,chunk symbolic,dedup+rollup", dict(n=3, sym_chunk=True, dedup=True, rollup=True, decoys=True))
        add("n=2,extra level,pm1 labels", dict(n=2, extra_level=True, labels="pm1", dedup=True, rollup=True, decoys=True))
        add("n=3,chunk symbolic,dedup,masses written as 500 or 500.0", dict(n=3, sym_chunk=True, dedup=True, rollup=False, decoys=True, mass_text=True))
        add("n=2,2 collections into the same files", dict(n=2, collections=2, prefixes=[None, None], combined=True, dedup=True, rollup=True, decoys=True))
    else:
        add("n=2+2,2 collections into the same files,all switches", dict(n=2, collections=2, prefixes=[None, None], combined=True), 0.01)
        add("n=4,dedup+rollup+decoys", dict(n=4, dedup=True, rollup=True, decoys=True), 0.01)
        add("n=4,no dedup,rollup", dict(n=4, dedup=False, rollup=True, decoys=True), 0.01)
        add("n=3,all switches,chunk symbolic", dict(n=3, sym_chunk=True), 0.01)
        add("n=3+2,2 collections,prefixes", dict(n=3, collections=2, sizes=[3, 2], prefixes=["a", "b"], dedup=True, rollup=True), 0.01)
        add("n=3,extra level,zero labels", dict(n=3, extra_level=True, labels="zero", dedup=True, rollup=True, decoys=True), 0.01)
        add("n=3,parquet input", dict(n=3, suffix=".parquet", dedup=True, rollup=True, decoys=True), 0.01)
        add("n=4,chunk symbolic,dedup+rollup,masses written as 500 or 500.0", dict(n=4, sym_chunk=True, dedup=True, rollup=True, decoys=True, mass_text=True), 0.01)
    from symx import world
    R = world.mod("mokapot.brew_rollup")
    S = world.mod("mokapot.streaming")
    rl = [([(1, 1), (1, 1)], False), ([(2, 1)], False), ([(2, 0), (0, 2)], False), ([(2, 1)], True), ([(1, 1), (1, 0)], True)] if tier == "quick" else \
        [([(2, 1), (1, 1)], False), ([(2, 2)], False), ([(1, 1), (1, 1), (1, 0)], False), ([(3, 0), (0, 2)], False), ([(2, 1), (1, 0)], True), ([(2, 2)], True)]
    for sizes, modcol in rl:
        hs.append(Harness("rollup%s%s" % (sizes, ",two level columns" if modcol else ""), dict(sizes=[list(x) for x in sizes], modcol=modcol), sym_rollup, real="rollup", functions=[R.do_rollup, R.compute_rollup_levels, S.MergedTabularDataReader.get_row_iterator,
                          S.ComputedTabularDataReader.get_chunked_data_iterator, T.ColumnMappedReader.get_chunked_data_iterator, T.BufferedWriter.append_data],
                          bounds=dict(source_files=sizes), stubs=stubs, assumptions=["source result files are sorted by score (as assign_confidence writes them)", "base level psm, rollup to peptide"], sample_rate=0.1))
    for n in ((3,) if tier == "quick" else (3, 4)):
        hs.append(Harness("groupby_max[n=%d]" % n, dict(n=n), sym_groupby, real="groupby", functions=[U.groupby_max], stubs=["pandas -> sympd; sample = arbitrary permutation"], sample_rate=0.05))
    return hs


BUDGET = {"quick": 900, "thorough": 3400}


# ------------------------------------------------------------------ concrete --
def real_collection(tmp, cid, c, label_enc="bool", suffix=".pin"):
    import pandas as pd
    from pathlib import Path
    n = len(c["scan"])
    lab = [bool(x) for x in c["labels"]]
    labcol = lab if label_enc == "bool" else [1 if t else (-1 if label_enc == "pm1" else 0) for t in lab]
    cols = {"SpecId": ["c%d_psm%d" % (cid, i) for i in range(n)], "Label": labcol, "ScanNr": [int(x) for x in c["scan"]], "ExpMass": [int(x) for x in c["mass"]],
            "Peptide": ["PEP%d" % int(x) for x in c["pep"]]}

    if c.get("extra"):
        cols["ModifiedPeptide"] = ["MOD%d" % int(x) for x in c["mod"]]
    cols["Proteins"] = ["prot%d_%d" % (cid, i) for i in range(n)]
    cols["feat"] = [0.5] * n
    df = pd.DataFrame(cols)
    p = Path(tmp) / ("coll%d%s" % (cid, suffix))
    if suffix == ".parquet":
        df.to_parquet(p, index=False)
    elif c.get("mass_dec"):
        # the text file spells each mass with or without a decimal point, as the counterexample says
        # (the data frame handed to the oracle keeps the numbers)
        txt = df.copy()
        txt["ExpMass"] = [("%d.0" % int(x)) if d else ("%d" % int(x)) for x, d in zip(c["mass"], c["mass_dec"])]
        txt.to_csv(p, sep="\t", index=False)
    else:
        df.to_csv(p, sep="\t", index=False)
    return p, df


def conc_levels(df, scores, dedup, rollup, higher_is_better=True):
    """-> {level: set of acceptable retained-row sets is too large; instead return a checker}"""
    pass


def check_outputs(df, scores, outdir, prefix, dedup, rollup, decoys, extra, higher_is_better=True, combined=False):
    import pandas as pd
    from fractions import Fraction
    from checks import spec
    pre = (prefix + ".") if prefix else ""
    n = len(df)
    ids = list(df["SpecId"])
    lab = [bool(x == 1) if df["Label"].dtype != bool else bool(x) for x in df["Label"]]
    keyf = {"psms": lambda i: (df["ScanNr"][i], df["ExpMass"][i]), "peptides": lambda i: df["Peptide"][i], "modifiedpeptides": lambda i: df["ModifiedPeptide"][i] if extra else None}
    levels = ["psms"] + ((["peptides"] + (["modifiedpeptides"] if extra else [])) if rollup else [])
    base = list(range(n))
    better = (lambda a, b: a >= b) if higher_is_better else (lambda a, b: a <= b)
    for level in levels:
        tf = os.path.join(outdir, "%stargets.%s" % (pre, level))
        dfp = os.path.join(outdir, "%sdecoys.%s" % (pre, level))
        if not os.path.exists(tf):
            return "%s not written" % os.path.basename(tf)
        if decoys != os.path.exists(dfp):
            return "decoy file %s: exists=%s although decoys=%s" % (os.path.basename(dfp), os.path.exists(dfp), decoys)
        got = []
        for path, is_t in [(tf, True)] + ([(dfp, False)] if decoys else []):
            t = pd.read_csv(path, sep="\t")
            prev = None
            for _, r in t.iterrows():
                if r["PSMId"] not in ids:
                    if combined:
                        continue  # row of another collection written into the same file
                    return "%s holds unknown PSM %r" % (os.path.basename(path), r["PSMId"])
                i = ids.index(r["PSMId"])
                if lab[i] != is_t:
                    return "%s: PSM %s has target flag %s" % (os.path.basename(path), r["PSMId"], lab[i])
                try:
                    sc_val, q_val = float(r["score"]), float(r["q-value"])
                except (TypeError, ValueError):
                    return "%s: row of %s: the score / q-value columns do not hold numbers: %s" % (os.path.basename(path), r["PSMId"], dict(r))
                if str(r["peptide"]) != str(df["Peptide"][i]) or str(r["proteinIds"]) != str(df["Proteins"][i]) or abs(sc_val - scores[i]) > 1e-9 * max(1, abs(scores[i])):
                    return "%s: row of %s does not carry that PSM's peptide/proteins/score: %s" % (os.path.basename(path), r["PSMId"], dict(r))
                if extra and level in ("psms", "peptides", "modifiedpeptides") and "ModifiedPeptide" in t.columns and str(r["ModifiedPeptide"]) != str(df["ModifiedPeptide"][i]):
                    return "%s: row of %s: level column ModifiedPeptide holds %r, the input PSM has %r" % (os.path.basename(path), r["PSMId"], r["ModifiedPeptide"], df["ModifiedPeptide"][i])
                if prev is not None and not better(scores[prev], scores[i]):
                    return "%s not sorted by score" % os.path.basename(path)
                prev = i
                got.append((i, float(r["q-value"])))
        rows = [i for i, _ in got]
        if len(set(rows)) != len(rows):
            return "%s level: a PSM appears twice" % level
        allrows = level == "psms" and not dedup
        if decoys:
            if allrows:
                if sorted(rows) != sorted(base):
                    return "psms level with deduplication off holds %d of %d PSMs" % (len(rows), len(base))
            else:
                ents = {}
                for j in base:
                    ents.setdefault(keyf[level](j), []).append(j)
                if len(rows) != len(ents):
                    return "%s level: %d rows for %d distinct entities" % (level, len(rows), len(ents))
        for i in rows:
            if i not in base:
                return "%s level: PSM %s was not retained at the lower level" % (level, ids[i])
            if not allrows:
                for j in base:
                    if not decoys and level != "psms" and dedup and any(k != j and keyf["psms"](k) == keyf["psms"](j) and better(scores[k], scores[j]) for k in range(n)):
                        continue  # j may have lost the competition at PSM level (decoy files are not written, so this cannot be observed)
                    if keyf[level](j) == keyf[level](i) and not better(scores[i], scores[j]):
                        return "%s level: %s (score %r) retained although %s of the same entity scores %r" % (level, ids[i], scores[i], ids[j], scores[j])
        if decoys and rows:
            q = spec.conc_q([Fraction(scores[i]) for i in rows], [lab[i] for i in rows], higher_is_better)
            for (i, qv), qe in zip(got, q):
                if abs(qv - float(qe)) > 2e-6:
                    return "%s level: q-value of %s is %r, the C01 formula on the retained rows gives %s" % (level, ids[i], qv, qe)
        if decoys and level == "psms":
            base = rows
    return None


def real_confidence(cfg, inp):
    import tempfile
    from pathlib import Path
    import numpy as np
    import mokapot
    import mokapot.confidence as Cm
    import mokapot.peps as Pm
    C = __import__("sys").modules["mokapot.confidence"]
    with tempfile.TemporaryDirectory(prefix="verif_c03_") as d:
        os.makedirs(os.path.join(d, "in"))
        out = os.path.join(d, "out")
        os.makedirs(out)
        pss, dfs, scs = [], [], []
        for cid, c in enumerate(inp["collections"]):
            p, df = real_collection(os.path.join(d, "in"), cid, c, cfg.get("labels", "bool"), cfg.get("suffix", ".pin"))
            try:
                pss.append(mokapot.read_pin(p, max_workers=1)[0])
            except Exception as ex:
                return dict(exception=repr(ex), violation="read_pin raised %r" % (ex,))
            dfs.append(df)
            scs.append([float(x) for x in c["scores"]])
        old = (C.CONFIDENCE_CHUNK_SIZE, C.peps_from_scores)
        C.CONFIDENCE_CHUNK_SIZE = int(inp["confidence_chunk"])
        C.peps_from_scores = __import__("checks.conflib", fromlist=["x"]).real_pep_stub
        try:
            mokapot.assign_confidence(pss, max_workers=1, scores=[np.array(x, dtype=float) for x in scs], descs=[True] * len(pss), dest_dir=Path(out),
                                      prefixes=inp["prefixes"], decoys=bool(inp["decoys"]), deduplication=bool(inp["deduplication"]), do_rollup=bool(inp["do_rollup"]))
        except Exception as ex:
            import traceback
            return dict(exception=repr(ex), violation="assign_confidence raised %r (%s)" % (ex, traceback.format_exc().splitlines()[-3].strip()))
        finally:
            C.CONFIDENCE_CHUNK_SIZE, C.peps_from_scores = old
        for cid, (df, sc) in enumerate(zip(dfs, scs)):
            v = check_outputs(df, sc, out, inp["prefixes"][cid], bool(inp["deduplication"]), bool(inp["do_rollup"]), bool(inp["decoys"]), bool(inp["collections"][cid].get("extra")),
                              combined=bool(cfg.get("combined")))
            if v:
                return dict(violation="collection %d: %s" % (cid, v))
        if cfg.get("combined"):
            import pandas as pd
            allids = {x for d_ in dfs for x in d_["SpecId"]}
            for f in sorted(os.listdir(out)):
                if f.startswith("targets.") or f.startswith("decoys."):
                    got = list(pd.read_csv(os.path.join(out, f), sep="\t")["PSMId"])
                    tags = [str(x).split("_")[0] for x in got]
                    if any(x not in allids for x in got) or tags != sorted(tags):
                        return dict(violation="%s: rows of the collections are not appended collection by collection: %s" % (f, got))
        left = [f for f in os.listdir(out) if "scores_metadata" in f or f.split(".")[0] in ("psms", "peptides", "modifiedpeptides")]
        if left:
            return dict(violation="intermediate files remain: %s" % left)
    return dict(outputs=None, violation=None)


def real_groupby(cfg, inp):
    import numpy as np
    import pandas as pd
    import mokapot.utils as U
    n = len(inp["groups"])
    df = pd.DataFrame({"grp": [int(x) for x in inp["groups"]], "score": [float(x) for x in inp["scores"]], "id": list(range(n))})
    for seed in (0, 1, 2):
        idx = list(U.groupby_max(df, "grp", "score", np.random.default_rng(seed)))
        ents = set(df["grp"])
        if len(idx) != len(ents) or set(df["grp"][idx]) != ents:
            return dict(violation="groupby_max returned %s for groups %s" % (idx, list(df["grp"])))
        for i in idx:
            if df["score"][i] < df["score"][df["grp"] == df["grp"][i]].max():
                return dict(violation="row %d is not the best of its group" % i)
    return dict(outputs=None, violation=None)


def real_rollup(cfg, inp):
    import tempfile
    from pathlib import Path
    from fractions import Fraction
    import numpy as np
    import pandas as pd
    from checks import spec
    R = __import__("importlib").import_module("mokapot.brew_rollup")
    rows = inp["rows"]
    modcol = bool(inp.get("modcol"))
    base_level = inp.get("level", "psm")
    with tempfile.TemporaryDirectory(prefix="verif_c03r_") as d:
        src, dst = Path(d) / "src", Path(d) / "dst"
        src.mkdir()
        dst.mkdir()
        for f, (nt, nd) in enumerate(inp["sizes"]):
            for kind in ("targets", "decoys"):
                rs = [r for r in rows if r["id"].startswith("run%d_%s_" % (f, kind))]
                if rs:
                    cols = {"PSMId": [r["id"] for r in rs], "peptide": ["SEQ%d" % int(r["peptide"]) for r in rs]}
                    if modcol:
                        cols["ModifiedPeptide"] = ["SEQ%d" % int(r["mod"]) for r in rs]
                    cols.update({"score": [float(r["score"]) for r in rs], "q-value": [0.5] * len(rs), "posterior_error_prob": [0.5] * len(rs), "proteinIds": ["prot_" + r["id"] for r in rs]})
                    pd.DataFrame(cols).to_csv(src / ("run%d.%s.%ss" % (f, kind, base_level)), sep="\t", index=False)
        if inp.get("same_dir"):
            dst = src
        if inp.get("stale_outputs"):
            for kind in ("targets", "decoys"):
                pd.DataFrame({"psm_id": ["stale_%s_0" % kind], "peptide": ["SEQ999"], "score": [1000.0], "q_value": [0.5], "posterior_error_prob": [0.5], "proteinIds": ["prot_stale"]}).to_csv(
                    dst / ("rollup.%s.%ss" % (kind, base_level)), sep="\t", index=False)
        conf = _Cfg()
        conf.level, conf.src_dir, conf.dest_dir, conf.file_root = base_level, src, dst, "rollup"
        conf.qvalue_algorithm, conf.peps_algorithm = "tdc", "qvality"
        old = R.peps_from_scores
        R.peps_from_scores = lambda s, t, a="qvality": np.full(len(s), 0.5)
        try:
            R.do_rollup(conf)
        except Exception as ex:
            return dict(exception=repr(ex), violation="do_rollup raised %r" % (ex,))
        finally:
            R.peps_from_scores = old
        byid = {r["id"]: r for r in rows}
        for fname, key in ([("modified_peptides", "mod")] if modcol else []) + [("peptides", "peptide")]:
            got = []
            for kind, is_t in (("targets", True), ("decoys", False)):
                p = dst / ("rollup.%s.%s" % (kind, fname))
                if not p.exists():
                    return dict(violation="%s not written" % p.name)
                t = pd.read_csv(p, sep="\t")
                prev = None
                for _, r in t.iterrows():
                    src_row = byid.get(r["psm_id"])
                    if src_row is None or bool(src_row["target"]) != is_t:
                        return dict(violation="%s holds %r" % (p.name, r["psm_id"]))
                    if str(r["peptide"]) != "SEQ%d" % int(src_row["peptide"]) or abs(float(r["score"]) - float(src_row["score"])) > 1e-9 or r["proteinIds"] != "prot_" + src_row["id"]:
                        return dict(violation="%s: row of %s modified: %s" % (p.name, r["psm_id"], dict(r)))
                    if prev is not None and prev < float(r["score"]):
                        return dict(violation="%s not sorted" % p.name)
                    prev = float(r["score"])
                    got.append((src_row, float(r["q_value"])))
            ents = {}
            for r in rows:
                ents.setdefault(int(r[key]), []).append(r)
            if len(got) != len(ents):
                return dict(violation="%s level: %d rows for %d distinct entities (%s)" % (fname, len(got), len(ents), [g["id"] for g, _ in got]))
            for r, _ in got:
                if float(r["score"]) < max(float(x["score"]) for x in ents[int(r[key])]):
                    return dict(violation="%s level: %s is not the best row of its entity" % (fname, r["id"]))
            q = spec.conc_q([Fraction(float(r["score"])) for r, _ in got], [bool(r["target"]) for r, _ in got], True)
            for (r, qv), qe in zip(got, q):
                if abs(qv - float(qe)) > 2e-6:
                    return dict(violation="%s level: q-value of %s is %r, formula on retained rows gives %s" % (fname, r["id"], qv, qe))
    return dict(outputs=None, violation=None)


REAL = {"confidence": real_confidence, "groupby": real_groupby, "rollup": real_rollup}
