"""C04 - reported q-values control the FDR end to end (reduced to three lemmas).

L1 (decided here): for n PSMs with distinct symbolic scores and EVERY ground-truth mask, the
null PSMs labelled target/decoy by independent fair coins, all 2^k labelings are pushed
through the real qvalues.tdc / dataset._update_labels and z3 is asked for a threshold alpha
in (0,1] at which the expected false discovery proportion among the accepted targets exceeds
alpha. unsat = the q-values control the FDR exactly (not asymptotically) for this n.
L2 = obligation 'scored by a model that never saw its spectrum' of check C02 (arbitrary-capacity
learner); L3 = obligation 'q-values computed on exactly the retained rows' of check C03.
L1 /\\ L2 /\\ L3 => the statement by the standard exchangeability argument (NOT mechanised)."""
import itertools
from fractions import Fraction

ID = "C04"


def setup():
    from symx import world, symnp, sympd
    world.import_mokapot_patched()
    Q = world.mod("mokapot.qvalues")
    D = world.mod("mokapot.dataset")
    world.rebind(Q, np=symnp)
    world.rebind(D, np=symnp, pd=sympd)
    return Q, D


def sym(ctx, cfg):
    import z3
    from symx import symnp, core
    from symx.core import SNum, PathOutcome, Unsupported
    Q, D = setup()
    n = cfg["n"]
    zs = [z3.Real("s%d" % i) for i in range(n)]
    for a, b in zip(zs, zs[1:]):
        ctx.assume(a > b)  # distinct scores; any score vector is a relabelling of indices of such a vector
    alpha = z3.Real("alpha")
    ctx.assume(z3.And(alpha > 0, alpha <= 1))
    scores = symnp.SArray([SNum(z) for z in zs], symnp.float64)
    inputs = dict(scores=[SNum(z) for z in zs], alpha=SNum(alpha))
    props = []
    runs = 0
    for mask in itertools.product((0, 1), repeat=n):  # 1 = incorrect (null) PSM, 0 = correct target
        nulls = [i for i in range(n) if mask[i]]
        k = len(nulls)
        if k == 0:
            continue
        if cfg.get("masks") == "prefix-free" and False:
            pass
        exp = 0
        for coins in itertools.product((True, False), repeat=k):
            tg = [True] * n
            for i, c in zip(nulls, coins):
                tg[i] = c
            if not any(tg):
                continue  # no target at all: nothing can be accepted, FDP = 0
            try:
                labels = D._update_labels(scores, symnp.SArray(tg, symnp.bool_), SNum(alpha), True)
            except Unsupported:
                raise
            except Exception as ex:
                return PathOutcome([], inputs, None, "exc", note=type(ex).__name__ + ":" + str(ex)[:80])
            runs += 1
            acc = [core._z(labels.items[i] == 1) for i in range(n)]
            num = z3.Sum([z3.If(acc[i], 1, 0) for i in nulls if tg[i]]) if any(tg[i] for i in nulls) else z3.IntVal(0)
            den = z3.Sum([z3.If(acc[i], 1, 0) for i in range(n) if tg[i]])
            fdp = z3.RealVal(0)
            for v in range(n, 0, -1):
                fdp = z3.If(den == v, z3.ToReal(num) / v, fdp)
            exp = exp + fdp * z3.RealVal(Fraction(1, 2 ** k))
        props.append(("expected_fdp_le_alpha[mask=%s]" % "".join(map(str, mask)), exp <= alpha))
    ctx.notes.append(("tdc_runs", runs))
    return PathOutcome(props, inputs, None)


def harnesses(tier):
    from symx.runner import Harness
    Q, D = setup()
    hs = []
    for n in (range(1, 6) if tier == "quick" else range(1, 8)):
        hs.append(Harness("L1[n=%d]" % n, dict(n=n), sym, real="l1", functions=[Q.tdc, Q._fdr2qvalue, D._update_labels],
                          bounds=dict(n=n, ground_truth_masks=2 ** n - 1, labelings=3 ** n), stubs=["numpy -> symnp"],
                          assumptions=["distinct scores", "incorrect PSMs are target or decoy with probability 1/2 independently; correct PSMs are targets",
                                       "L2 is discharged by check C02, L3 by check C03; their composition into the distributional statement is a paper argument"],
                          sample_rate=1.0))
    return hs


def evidence_extra(tier):
    return dict(lemmas=dict(L1="this check: exact finite-sample FDR inequality of the real tdc for every ground-truth mask",
                            L2="check C02, obligations fileK_rowR_model_never_saw_its_spectrum / scored_by_its_fold_model (arbitrary-capacity estimator)",
                            L3="check C03, obligations *_qvalue_on_retained_rows and *_is_best_of_its_entity (competition before estimation)",
                            composition="not mechanised"))


# ------------------------------------------------------------------ concrete --
def real_l1(cfg, inp):
    import numpy as np
    import mokapot.dataset as D
    scores = np.array([float(x) for x in inp["scores"]], dtype=float)
    alpha = float(inp["alpha"])
    n = len(scores)
    for mask in itertools.product((0, 1), repeat=n):
        nulls = [i for i in range(n) if mask[i]]
        k = len(nulls)
        if not k:
            continue
        exp = 0.0
        for coins in itertools.product((True, False), repeat=k):
            tg = [True] * n
            for i, c in zip(nulls, coins):
                tg[i] = c
            if not any(tg):
                continue
            lab = D._update_labels(scores, np.array(tg), alpha, True)
            acc = [bool(lab[i] == 1) for i in range(n)]
            den = sum(1 for i in range(n) if tg[i] and acc[i])
            num = sum(1 for i in nulls if tg[i] and acc[i])
            exp += (num / den if den else 0.0) / 2 ** k
        if exp > alpha + 1e-6:
            return dict(violation="ground truth %s (1 = incorrect PSM): expected FDP %.6f among targets accepted at q <= %r" % ("".join(map(str, mask)), exp, alpha))
    return dict(outputs=None, violation=None)


REAL = {"l1": real_l1}
