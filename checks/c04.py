"""C04 - reported q-values control the FDR end to end (reduced to three lemmas).

L1 (decided here): for n PSMs with distinct symbolic scores and EVERY ground-truth mask, the
null PSMs labelled target/decoy by independent fair coins, all 2^k labelings are pushed
through the real qvalues.tdc / dataset._update_labels and z3 is asked for a threshold alpha
in (0,1] at which the expected false discovery proportion among the accepted targets exceeds
alpha. unsat = the q-values control the FDR exactly (not asymptotically) for this n.
L2 = obligation 'scored by a model that never saw its spectrum' of check C02 (arbitrary-capacity
learner); L3 = obligation 'q-values computed on exactly the retained rows' of check C03; the C02 / C03
harnesses that carry them are run by this check too (prefixed L2: / L3:).
L4 (decided here): the PSMs that survive the competition at spectrum and peptide level are the
same for any two label vectors on the same spectra, peptides and scores (ties included), i.e.
tie-breaking is label-blind.
L1 /\\ L2 /\\ L3 /\\ L4 => the statement by the standard exchangeability argument (NOT mechanised)."""
import itertools
from fractions import Fraction

ID = "C04"


def setup():
    from symx import world, symnp, sympd
    world.import_mokapot_patched()
    Q = world.mod("mokapot.qvalues")
    D = world.mod("mokapot.dataset")
    world.rebind(Q, np=symnp)
    world.rebind(D, np=symnp, pd=sympd)
    return Q, D


def sym(ctx, cfg):
    import z3
    from symx import symnp, core
    from symx.core import SNum, PathOutcome, Unsupported
    Q, D = setup()
    n = cfg["n"]
    zs = [z3.Real("s%d" % i) for i in range(n)]
    for a, b in zip(zs, zs[1:]):
        ctx.assume(a > b)  # distinct scores; any score vector is a relabelling of indices of such a vector
    alpha = z3.Real("alpha")
    ctx.assume(z3.And(alpha > 0, alpha <= 1))
    scores = symnp.SArray([SNum(z) for z in zs], symnp.float64)
    inputs = dict(scores=[SNum(z) for z in zs], alpha=SNum(alpha))
    props = []
    runs = 0
    for mask in itertools.product((0, 1), repeat=n):  # 1 = incorrect (null) PSM, 0 = correct target
        nulls = [i for i in range(n) if mask[i]]
        k = len(nulls)
        if k == 0:
            continue
        if cfg.get("masks") == "prefix-free" and False:
            pass
        exp = 0
        for coins in itertools.product((True, False), repeat=k):
            tg = [True] * n
            for i, c in zip(nulls, coins):
                tg[i] = c
            if not any(tg):
                continue  # no target at all: nothing can be accepted, FDP = 0
            try:
                labels = D._update_labels(scores, symnp.SArray(tg, symnp.bool_), SNum(alpha), True)
            except Unsupported:
                raise
            except Exception as ex:
                return PathOutcome([], inputs, None, "exc", note=type(ex).__name__ + ":" + str(ex)[:80])
            runs += 1
            acc = [core._z(labels.items[i] == 1) for i in range(n)]
            num = z3.Sum([z3.If(acc[i], 1, 0) for i in nulls if tg[i]]) if any(tg[i] for i in nulls) else z3.IntVal(0)
            den = z3.Sum([z3.If(acc[i], 1, 0) for i in range(n) if tg[i]])
            fdp = z3.RealVal(0)
            for v in range(n, 0, -1):
                fdp = z3.If(den == v, z3.ToReal(num) / v, fdp)
            exp = exp + fdp * z3.RealVal(Fraction(1, 2 ** k))
        props.append(("expected_fdp_le_alpha[mask=%s]" % "".join(map(str, mask)), exp <= alpha))
    ctx.notes.append(("tdc_runs", runs))
    return PathOutcome(props, inputs, None)


def sym_label_blind(ctx, cfg):
    """L4: which PSM survives the competition (spectrum level and every rollup level) does not
    depend on the target/decoy labels - ties included. Two runs of the real assign_confidence on
    the same keys, peptides and scores with two independent symbolic label vectors."""
    import z3
    import os
    from symx import vfs, symnp, core
    from symx.core import SNum, PathOutcome, Unsupported
    from checks import conflib, c03
    C, W, U, T, D, Q = conflib.setup()
    vfs.reset()
    n = cfg["n"]
    C.CONFIDENCE_CHUNK_SIZE = int(ctx.fresh_int("confidence_chunk", 1, n + 1)) if cfg.get("sym_chunk") else n + 1
    U.MERGE_SORT_CHUNK_SIZE = n + 1
    runs = []
    syms = []
    for tag in ("A", "B"):
        ps, s = conflib.make_collection(ctx, n, 0, "bool", tag=tag)
        syms.append(s)
        if tag == "B":
            for k in ("scan", "mass", "pep", "score"):
                for a, b in zip(syms[0][k], s[k]):
                    ctx.assume(a == b)
        try:
            c03.run_confidence(ctx, cfg, C, [s], [ps], [symnp.SArray([SNum(z) for z in s["score"]], symnp.float64)], None, True, True, True, [None], dest="/vfs/out" + tag)
        except Unsupported:
            raise
        except Exception as ex:
            return PathOutcome([], None, None, "exc", note=type(ex).__name__ + ":" + str(ex)[:80])
        kept = {}
        for lvl in ("psms", "peptides"):
            ids = []
            for kind in ("targets", "decoys"):
                t = vfs.get("/vfs/out%s/%s.%s" % (tag, kind, lvl))
                ids += list(t._c["PSMId"]) if t is not None else []
            kept[lvl] = sorted(ids)
        runs.append(kept)
    inputs = dict(collections=conflib.collection_inputs([syms[0]]), labels_b=[core.SBool(z) for z in syms[1]["lab"]], confidence_chunk=C.CONFIDENCE_CHUNK_SIZE)
    props = [("same_survivors_at_%s_level_whatever_the_labels: %s vs %s" % (lvl, runs[0][lvl], runs[1][lvl]), z3.BoolVal(runs[0][lvl] == runs[1][lvl])) for lvl in ("psms", "peptides")]
    return PathOutcome(props, inputs, None)


def harnesses(tier):
    from symx.runner import Harness
    Q, D = setup()
    hs = []
    from checks import conflib
    C = conflib.setup()[0]
    for name, cfg in ([("L4[n=3]", dict(n=3)), ("L4[n=2,chunk symbolic]", dict(n=2, sym_chunk=True))] if tier == "quick" else [("L4[n=3,chunk symbolic]", dict(n=3, sym_chunk=True))]):  # (L4[n=4] does not finish in 15 minutes: not included)
        hs.append(Harness(name, cfg, sym_label_blind, real="l4", functions=[C.assign_confidence, C._save_sorted_metadata_chunks], bounds=cfg,
                          stubs=["as C03"], assumptions=["L4: survivors of the competition are independent of the labels (needed for exchangeability of incorrect targets and decoys when scores tie)"],
                          sample_rate=0.01))
    for n in (range(1, 6) if tier == "quick" else range(1, 8)):
        hs.append(Harness("L1[n=%d]" % n, dict(n=n), sym, real="l1", functions=[Q.tdc, Q._fdr2qvalue, D._update_labels],
                          bounds=dict(n=n, ground_truth_masks=2 ** n - 1, labelings=3 ** n), stubs=["numpy -> symnp"],
                          assumptions=["distinct scores", "incorrect PSMs are target or decoy with probability 1/2 independently; correct PSMs are targets",
                                       "L2 is discharged by check C02, L3 by check C03; their composition into the distributional statement is a paper argument"],
                          sample_rate=1.0))
    # L2 and L3 are decided by the harnesses of C02 / C03; the ones that carry the two lemmas are run
    # here as well, so that this check stands on its own (a leak between a PSM and the model that
    # scores it, or q-values computed before the competition, breaks C04 through them).
    from checks import c02, c03
    want2 = ("brew[n=4,folds=2]", "brew[n=4,folds=2,cap,rng,fixed labels]", "brew[n=4+2,folds=2,2 files,cap,fixed labels]", "brew_with_mokapot_Model[n=4,folds=2]") if tier == "quick" else \
        ("brew[n=5,folds=2]", "brew[n=4,folds=2,cap,rng]", "brew[n=4,folds=2,2 files]", "brew_with_mokapot_Model[n=6,folds=2]")
    for h in c02.harnesses(tier):
        if h.name in want2 or "under another seed" in h.name:
            h.name = "L2:" + h.name
            hs.append(h)
    # L5: the alternative, count-based q-value estimate (qvalue_algorithm="from_counts") is anchored - accepting
    # everything is estimated at pi0 - under the kernel contracts of check C06
    from checks import c06
    for h in c06.harnesses(tier):
        if h.name.startswith("qvalues[from_counts"):
            h.name = "L5:" + h.name
            hs.append(h)
    want3 = ("confidence[n=3,all switches]",) if tier == "quick" else ("confidence[n=4,dedup+rollup+decoys]", "confidence[n=3,all switches,chunk symbolic]")
    for h in c03.harnesses(tier):
        if h.name in want3:
            h.name = "L3:" + h.name
            hs.append(h)
    return hs


def evidence_extra(tier):
    return dict(lemmas=dict(L1="this check: exact finite-sample FDR inequality of the real tdc for every ground-truth mask",
                            L4="this check: the set of PSMs surviving the competition (PSM and peptide level) is the same for any two label vectors, ties included",
                            L2="check C02, obligations fileK_rowR_model_never_saw_its_spectrum / scored_by_its_fold_model (arbitrary-capacity estimator)",
                            L3="check C03, obligations *_qvalue_on_retained_rows and *_is_best_of_its_entity (competition before estimation)",
                            composition="not mechanised"))


# ------------------------------------------------------------------ concrete --
def real_l1(cfg, inp):
    import numpy as np
    import mokapot.dataset as D
    scores = np.array([float(x) for x in inp["scores"]], dtype=float)
    alpha = float(inp["alpha"])
    n = len(scores)
    for mask in itertools.product((0, 1), repeat=n):
        nulls = [i for i in range(n) if mask[i]]
        k = len(nulls)
        if not k:
            continue
        exp = 0.0
        for coins in itertools.product((True, False), repeat=k):
            tg = [True] * n
            for i, c in zip(nulls, coins):
                tg[i] = c
            if not any(tg):
                continue
            lab = D._update_labels(scores, np.array(tg), alpha, True)
            acc = [bool(lab[i] == 1) for i in range(n)]
            den = sum(1 for i in range(n) if tg[i] and acc[i])
            num = sum(1 for i in nulls if tg[i] and acc[i])
            exp += (num / den if den else 0.0) / 2 ** k
        if exp > alpha + 1e-6:
            return dict(violation="ground truth %s (1 = incorrect PSM): expected FDP %.6f among targets accepted at q <= %r" % ("".join(map(str, mask)), exp, alpha))
    return dict(outputs=None, violation=None)


def real_l4(cfg, inp):
    import os
    import tempfile
    from pathlib import Path
    import numpy as np
    import pandas as pd
    import mokapot
    from checks import c03
    C = __import__("sys").modules["mokapot.confidence"]
    coll = inp["collections"][0]
    kept = []
    for labels in (coll["labels"], inp["labels_b"]):
        with tempfile.TemporaryDirectory(prefix="verif_c04_") as d:
            os.makedirs(os.path.join(d, "in"))
            os.makedirs(os.path.join(d, "out"))
            p, df = c03.real_collection(os.path.join(d, "in"), 0, dict(coll, labels=labels), "bool", ".pin")
            ps = mokapot.read_pin(p, max_workers=1)[0]
            old = (C.CONFIDENCE_CHUNK_SIZE, C.peps_from_scores)
            C.CONFIDENCE_CHUNK_SIZE = int(inp["confidence_chunk"])
            C.peps_from_scores = __import__("checks.conflib", fromlist=["x"]).real_pep_stub
            try:
                mokapot.assign_confidence([ps], max_workers=1, scores=[np.array([float(x) for x in coll["scores"]])], descs=[True], dest_dir=Path(d) / "out", prefixes=[None], decoys=True)
            except Exception as ex:
                return dict(exception=repr(ex), violation=None)
            finally:
                C.CONFIDENCE_CHUNK_SIZE, C.peps_from_scores = old
            k = {}
            for lvl in ("psms", "peptides"):
                ids = []
                for kind in ("targets", "decoys"):
                    ids += list(pd.read_csv(os.path.join(d, "out", "%s.%s" % (kind, lvl)), sep="\t")["PSMId"])
                k[lvl] = sorted(ids)
            kept.append(k)
    for lvl in ("psms", "peptides"):
        if kept[0][lvl] != kept[1][lvl]:
            return dict(violation="%s level: with labels %s the survivors are %s, with labels %s they are %s (same spectra, peptides and scores %s): the competition looks at the labels"
                        % (lvl, coll["labels"], kept[0][lvl], inp["labels_b"], kept[1][lvl], coll["scores"]))
    return dict(outputs=None, violation=None)


REAL = {"l1": real_l1, "l4": real_l4}


def _lemma_reals():
    from checks import c02, c03
    REAL.setdefault("brew", c02.REAL["brew"])
    REAL.setdefault("real_model", c02.REAL["real_model"])
    REAL.setdefault("rerun", c02.REAL["rerun"])
    from checks import c06
    REAL.setdefault("qvalues", c06.REAL["qvalues"])
    REAL.setdefault("confidence", c03.REAL["confidence"])


_lemma_reals()
