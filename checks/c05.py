"""C05 - results do not depend on chunk sizes, worker count, thread timing or file format.

Relational check inside one symbolic path: the real brew() (harness of C02) and the real
assign_confidence() (harness of C03) are executed twice on the same symbolic table - once
with a streaming chunk constant symbolic (1..N+1) and a nondeterministic task completion
order, once with all constants larger than the table and submission order - and the outputs
are asserted equal (score terms / result files row by row); likewise text vs Parquet input.
A run that fails although the reference run succeeds is a violation."""
import os

from . import brewlib, conflib, c02, c03

ID = "C05"


def _brew_once(ctx, cfg, B, D, sizes, chunk_pred, chunk_read, sched, suffix=".pin", memo=None, perm_log=None):
    import z3
    from symx import symnp, vfs, stubs, core
    from symx.core import SNum
    dss, syms = [], []
    for fid, n in enumerate(sizes):
        ds, s = brewlib.make_dataset(ctx, D, n, fid, 2, cfg.get("labels", "pm1"))
        if suffix != ".pin":
            newp = vfs.VPath(str(s["path"]).replace(".pin", suffix))
            vfs.put(newp, vfs.get(s["path"]))
            ds.filename = newp
        dss.append(ds)
        syms.append(s)
        if cfg.get("fixed_hash_order"):
            # fold layout is C02's business: distinct spectra in a fixed hash order
            for i in range(n - 1):
                ctx.assume(z3.And(s["scan"][i] != s["scan"][i + 1],
                                  brewlib.s_crc32(core.SKey((SNum(s["scan"][i]), SNum(s["mass"][i])))).z < brewlib.s_crc32(core.SKey((SNum(s["scan"][i + 1]), SNum(s["mass"][i + 1])))).z))
        if cfg.get("fixed_labels", True):
            # labels only decide between results and the documented no-target/no-decoy errors (C02 explores them)
            for i, z in enumerate(s["lab"]):
                ctx.assume(z == z3.BoolVal((i + fid) % 2 == 0))
    B.CHUNK_SIZE_ROWS_PREDICTION, B.CHUNK_SIZE_READ_ALL_DATA = chunk_pred, chunk_read
    stubs.MODE[0] = "nondet" if sched else "submission"
    log = {}
    model = brewlib.StubModel(log, decision_function=False)
    B.update_labels = lambda fn, s_, tc, fdr: symnp.SArray([0] * len(s_), symnp.float64)
    try:
        if cfg.get("cap"):
            # the capped training subset is a random draw: the same seed in both runs (an uninterpreted
            # function of (seed, call index), arbitrary at its first use)
            gen = symnp.Generator("seeded", log=perm_log, memo=memo, seed=42)
        else:
            gen = symnp.Generator("identity")
        _, models, scores, descs = B.brew(dss, model=model, test_fdr=SNum(z3.Real("test_fdr")), folds=cfg["folds"], max_workers=2, rng=gen, subset_max_train=cfg.get("cap"), ensemble=bool(cfg.get("ensemble")))
        trained = sorted((m.fold, [(int(f), int(r)) for f, r in (m.trained_on or [])]) for m in models)
        return ("ok", [list(s.items) for s in scores], syms, trained)
    except core.Unsupported:
        raise
    except Exception as ex:
        return ("exc", type(ex).__name__ + ":" + str(ex)[:60], syms)
    finally:
        stubs.MODE[0] = "submission"


def sym_brew(ctx, cfg):
    import z3
    from symx import vfs, core
    from symx.core import PathOutcome
    B, D, P, U, T, Q = brewlib.setup()
    vfs.reset()
    brewlib.HASHES.clear()
    sizes = cfg["sizes"]
    big = max(sizes) + 1
    cp = int(ctx.fresh_int("chunk_prediction", 1, big)) if cfg["vary"] == "prediction" else big
    cr = int(ctx.fresh_int("chunk_read_all", 1, big)) if cfg["vary"] == "read" else big
    # labels only matter for the documented no-target/no-decoy errors: alternate
    memo, perm_log = {}, []
    a = _brew_once(ctx, cfg, B, D, sizes, cp, cr, cfg.get("sched", False), cfg.get("suffix", ".pin"), memo, perm_log)
    syms = a[2]
    b = _brew_once(ctx, cfg, B, D, sizes, big, big, False, ".pin", memo, [])
    inputs = dict(files=brewlib.dataset_inputs(syms), folds=cfg["folds"], chunk_prediction=cp, chunk_read_all=cr, suffix=cfg.get("suffix", ".pin"), cap=cfg.get("cap"), perms=perm_log,
                  hashes=[[brewlib.s_crc32(core.SKey((core.SNum(s["scan"][i]), core.SNum(s["mass"][i])))) for i in range(s["n"])] for s in syms])
    props = []
    if a[0] != b[0]:
        props.append(("run_fails_iff_reference_fails: varied=%s reference=%s" % (a[1] if a[0] == "exc" else "ok", b[1] if b[0] == "exc" else "ok"), z3.BoolVal(False)))
    elif a[0] == "exc":
        # both runs stop with a documented error (which of two applicable errors comes first may depend on task order)
        props.append(("both_runs_stop_with_an_error", z3.BoolVal(True)))
    else:
        for fid, (x, y) in enumerate(zip(a[1], b[1])):
            props.append(("file%d_score_count" % fid, z3.BoolVal(len(x) == len(y))))
            for i, (u, v) in enumerate(zip(x, y)):
                props.append(("file%d_row%d_same_score" % (fid, i), core._z(u) == core._z(v)))
        # an estimator is a function of the training TABLE: the same rows in the same order
        props.append(("every_fold_model_is_trained_on_the_same_rows_in_the_same_order: %s vs reference %s" % (a[3], b[3]), z3.BoolVal(a[3] == b[3])))
    return PathOutcome(props, inputs, None, note=a[0])


def _conf_once(ctx, cfg, C, U, n, cchunk, mchunk, dest, suffix=".pin", sched=False):
    from symx import vfs, symnp, core, stubs
    from symx.core import SNum
    ps, s = conflib.make_collection(ctx, n, 0, "bool", suffix=suffix)
    C.CONFIDENCE_CHUNK_SIZE, U.MERGE_SORT_CHUNK_SIZE = cchunk, mchunk
    stubs.MODE[0] = "nondet" if sched else "submission"
    try:
        c03.run_confidence(ctx, cfg, C, [s], [ps], [symnp.SArray([SNum(z) for z in s["score"]], symnp.float64)], None, cfg["dedup"], True, True, [None], dest=dest)
        out = {}
        for p in vfs.listing():
            if p.startswith(dest + "/"):
                out[os.path.basename(p)] = vfs.get(p)
        return ("ok", out, s)
    except core.Unsupported:
        raise
    except Exception as ex:
        return ("exc", type(ex).__name__ + ":" + str(ex)[:60], s)
    finally:
        stubs.MODE[0] = "submission"


def sym_conf(ctx, cfg):
    import z3
    from symx import vfs, core
    from symx.core import PathOutcome
    C, W, U, T, D, Q = conflib.setup()
    vfs.reset()
    n = cfg["n"]
    big = n + 1
    cc = int(ctx.fresh_int("confidence_chunk", 1, big)) if cfg["vary"] in ("confidence", "both") else big
    mc = int(ctx.fresh_int("merge_sort_chunk", 1, big)) if cfg["vary"] in ("merge", "both") else big
    from symx import stubs
    del stubs.ORDERS[:]
    a = _conf_once(ctx, cfg, C, U, n, cc, mc, "/vfs/outA", cfg.get("suffix", ".pin"), sched=bool(cfg.get("sched")))
    orders = [list(o) for o in stubs.ORDERS]
    b = _conf_once(ctx, cfg, C, U, n, big, big, "/vfs/outB", ".pin")
    s = a[2]
    inputs = dict(collections=conflib.collection_inputs([s]), confidence_chunk=cc, merge_sort_chunk=mc, dedup=cfg["dedup"], suffix=cfg.get("suffix", ".pin"),
                  task_orders=orders)
    props = []
    if a[0] != b[0]:
        props.append(("run_fails_iff_reference_fails: varied=%s reference=%s" % (a[1] if a[0] == "exc" else "ok", b[1] if b[0] == "exc" else "ok"), z3.BoolVal(False)))
    elif a[0] == "ok":
        props.append(("same_result_files", z3.BoolVal(sorted(a[1]) == sorted(b[1]))))
        for name in sorted(set(a[1]) & set(b[1])):
            ta, tb = a[1][name], b[1][name]
            props.append(("%s_same_shape" % name, z3.BoolVal(list(ta.columns) == list(tb.columns) and len(ta) == len(tb))))
            if list(ta.columns) == list(tb.columns) and len(ta) == len(tb):
                for c in ta.columns:
                    if c == "posterior_error_prob":
                        continue  # tagging symbols of the PEP stub are numbered per call
                    for i in range(len(ta)):
                        x, y = ta._c[c][i], tb._c[c][i]
                        if isinstance(x, core.Sym) or isinstance(y, core.Sym):
                            props.append(("%s[%s][%d]" % (name, c, i), core._z(x) == core._z(y)))
                        else:
                            props.append(("%s[%s][%d]" % (name, c, i), z3.BoolVal(x == y)))
    # exact score ties: which of two equal-scoring rows is listed first may legitimately differ (C03: any tied winner)
    if cfg.get("no_ties", True):
        pass
    return PathOutcome(props, inputs, None, note=a[0])


def harnesses(tier):
    from symx.runner import Harness
    B, D, P, U, T, Q = brewlib.setup()
    C = conflib.setup()[0]
    hs = []
    stubs = ["as C02 / C03", "task completion order: every permutation of the tasks of a pool (<= 3 tasks) / {identity, reversal, rotation}"]

    def addb(name, cfg, rate=0.05):
        hs.append(Harness("brew[%s]" % name, cfg, sym_brew, real="brew_rel", functions=[B.brew, B._predict, B.make_train_sets, P.parse_in_chunks, P.get_rows_from_dataframe, P.concat_and_reindex_chunks, T.ParquetFileReader.get_chunked_data_iterator],
                          bounds=cfg, stubs=stubs, assumptions=["estimator deterministic: score(fold model, row) is the same symbol in both runs", "codecs: text and Parquet decode to the same values (trusted)"], sample_rate=rate))

    def addc(name, cfg, rate=0.02):
        hs.append(Harness("confidence[%s]" % name, cfg, sym_conf, real="conf_rel", functions=[C.assign_confidence, C.create_sorted_file_iterator, C._save_sorted_metadata_chunks, U.merge_sort, U.csv_row_iterator, U.create_chunks],
                          bounds=cfg, stubs=stubs, assumptions=["codecs trusted"], sample_rate=rate))
    if tier == "quick":
        addb("n=4,folds=2,prediction chunk", dict(sizes=[4], folds=2, vary="prediction"))
        addb("n=4,folds=2,read chunk,task order", dict(sizes=[4], folds=2, vary="read", sched=True))
        addb("n=4,folds=2,parquet vs text,prediction chunk", dict(sizes=[4], folds=2, vary="prediction", suffix=".parquet"))
        addb("n=5,folds=2,training cap 2,read chunk,fixed fold layout", dict(sizes=[5], folds=2, vary="read", cap=2, fixed_hash_order=True))
        addb("n=4,folds=2,ensemble,prediction chunk", dict(sizes=[4], folds=2, vary="prediction", ensemble=True))
        addc("n=3,dedup,confidence chunk", dict(n=3, dedup=True, vary="confidence"))
        addc("n=3,no dedup,confidence+merge chunk", dict(n=3, dedup=False, vary="both"))
        addc("n=3,dedup,parquet vs text", dict(n=3, dedup=True, vary="confidence", suffix=".parquet"))
        addc("n=3,dedup,confidence chunk,task completion order", dict(n=3, dedup=True, vary="confidence", sched=True))
    else:
        addc("n=3,no dedup,confidence chunk,task completion order", dict(n=3, dedup=False, vary="confidence", sched=True), 0.005)
        addb("n=5,folds=2,prediction chunk", dict(sizes=[5], folds=2, vary="prediction"), 0.01)
        addb("n=5,folds=3,prediction chunk", dict(sizes=[5], folds=3, vary="prediction"), 0.01)
        addb("n=5,folds=2,ensemble,prediction chunk", dict(sizes=[5], folds=2, vary="prediction", ensemble=True), 0.01)
        addb("n=4,folds=2,read chunk,task order", dict(sizes=[4], folds=2, vary="read", sched=True), 0.01)
        addb("n=3+3,folds=2,read chunk,task order", dict(sizes=[3, 3], folds=2, vary="read", sched=True), 0.01)
        addb("n=4,folds=2,parquet vs text,prediction chunk", dict(sizes=[4], folds=2, vary="prediction", suffix=".parquet"), 0.01)
        addc("n=4,dedup,confidence chunk", dict(n=4, dedup=True, vary="confidence"), 0.005)
        addc("n=3,no dedup,confidence+merge chunk", dict(n=3, dedup=False, vary="both"), 0.005)
        addc("n=3,dedup,confidence+merge chunk", dict(n=3, dedup=True, vary="both"), 0.005)
        addc("n=3,dedup,parquet vs text", dict(n=3, dedup=True, vary="confidence", suffix=".parquet"), 0.005)
    # the column-scan chunk sizes of the PIN reader (CHUNK_SIZE_COLUMNS/ROWS_FOR_DROP_COLUMNS): the harnesses of C10
    # that make them symbolic are run here too, so that this check covers every streaming constant it names
    from checks import c10
    for h in c10.harnesses(tier):
        if h.name.startswith("nascan[") or h.name.startswith("read_percolator["):
            h.name = "scan:" + h.name
            hs.append(h)
    return hs


BUDGET = {"quick": 900, "thorough": 3400}


# ------------------------------------------------------------------ concrete --
def real_brew_rel(cfg, inp):
    import tempfile
    import numpy as np
    import mokapot
    B = __import__("importlib").import_module("mokapot.brew") and __import__("sys").modules["mokapot.brew"]
    folds = int(inp["folds"])

    def run(d, suffix, cp, cr, workers):
        dss = []
        for fid, rows in enumerate(inp["files"]):
            scan, mass = c02.realize_keys(rows, inp["hashes"][fid])
            p, df = brewlib.real_dataset(None, d, fid, dict(rows, scan=scan, mass=mass), cfg.get("labels", "pm1"), suffix)
            dss.append(mokapot.read_pin(p, max_workers=1)[0])
        old = (B.CHUNK_SIZE_ROWS_PREDICTION, B.CHUNK_SIZE_READ_ALL_DATA)
        B.CHUNK_SIZE_ROWS_PREDICTION, B.CHUNK_SIZE_READ_ALL_DATA = cp, cr
        try:
            _, models, scores, descs = mokapot.brew(dss, model=c02._RealModel({}, False), test_fdr=1.0, folds=folds, max_workers=workers, rng=c02.scripted_rng(inp.get("perms") or []),
                                                    subset_max_train=inp.get("cap"), ensemble=bool(cfg.get("ensemble")))
            return ("ok", [np.asarray(s, dtype=float).tolist() for s in scores], sorted((m.fold, list(m.trained_on or [])) for m in models))
        except Exception as ex:
            return ("exc", "%s: %s" % (type(ex).__name__, ex))
        finally:
            B.CHUNK_SIZE_ROWS_PREDICTION, B.CHUNK_SIZE_READ_ALL_DATA = old
    with tempfile.TemporaryDirectory(prefix="verif_c05a_") as d1, tempfile.TemporaryDirectory(prefix="verif_c05b_") as d2:
        a = run(d1, inp.get("suffix", ".pin"), int(inp["chunk_prediction"]), int(inp["chunk_read_all"]), 3 if cfg.get("sched") else 1)
        b = run(d2, ".pin", 10 ** 6, 10 ** 6, 1)
    if a[0] != b[0]:
        return dict(violation="with prediction chunk %s / read chunk %s (%s) the run gives %s, the reference run gives %s" % (inp["chunk_prediction"], inp["chunk_read_all"], inp.get("suffix"), a, b))
    if a[0] == "ok" and a[1] != b[1]:
        return dict(violation="scores differ: %s vs reference %s" % (a[1], b[1]))
    if a[0] == "ok" and a[2] != b[2]:
        return dict(violation="with read chunk %s (training cap %s) the fold models are fitted on %s, in the reference run on %s: same rows, another order - an estimator is a function of the table it is given"
                              % (inp["chunk_read_all"], inp.get("cap"), a[2], b[2]))
    return dict(outputs=None, violation=None)


def real_conf_rel(cfg, inp):
    import tempfile
    from pathlib import Path
    import numpy as np
    import mokapot
    C = __import__("importlib").import_module("mokapot.confidence") and __import__("sys").modules["mokapot.confidence"]
    U = __import__("sys").modules["mokapot.utils"]

    orders = [o for o in (inp.get("task_orders") or []) if len(o) > 1]

    def run(d, suffix, cc, mc, force=None):
        os.makedirs(os.path.join(d, "in"))
        os.makedirs(os.path.join(d, "out"))
        p, df = c03.real_collection(os.path.join(d, "in"), 0, inp["collections"][0], "bool", suffix)
        ps = mokapot.read_pin(p, max_workers=1)[0]
        sc = [float(x) for x in inp["collections"][0]["scores"]]
        old = (C.CONFIDENCE_CHUNK_SIZE, U.MERGE_SORT_CHUNK_SIZE, C.peps_from_scores)
        C.CONFIDENCE_CHUNK_SIZE, U.MERGE_SORT_CHUNK_SIZE = cc, mc
        C.peps_from_scores = __import__("checks.conflib", fromlist=["x"]).real_pep_stub
        orig_save = C._save_sorted_metadata_chunks
        workers = 1
        if force:
            # real threads; the task that writes chunk i finishes at the position the model gives it
            import re as _re
            import time as _time
            workers = len(force)

            def slow_save(chunk_metadata, score_chunk, psms_, dedup_, path_):
                m = _re.search(r"scores_metadata_(\d+)", str(path_))
                i = int(m.group(1)) if m else 0
                _time.sleep(0.4 * (force.index(i) if i in force else 0))
                return orig_save(chunk_metadata, score_chunk, psms_, dedup_, path_)
            C._save_sorted_metadata_chunks = slow_save
        try:
            mokapot.assign_confidence([ps], max_workers=workers, scores=[np.array(sc, dtype=float)], descs=[True], dest_dir=Path(d) / "out", prefixes=[None], decoys=True,
                                      deduplication=bool(inp["dedup"]))
            return ("ok", {f: open(os.path.join(d, "out", f)).read() for f in sorted(os.listdir(os.path.join(d, "out")))})
        except Exception as ex:
            return ("exc", "%s: %s" % (type(ex).__name__, ex))
        finally:
            C.CONFIDENCE_CHUNK_SIZE, U.MERGE_SORT_CHUNK_SIZE, C.peps_from_scores = old
            C._save_sorted_metadata_chunks = orig_save
    with tempfile.TemporaryDirectory(prefix="verif_c05c_") as d1, tempfile.TemporaryDirectory(prefix="verif_c05d_") as d2:
        a = run(d1, inp.get("suffix", ".pin"), int(inp["confidence_chunk"]), int(inp["merge_sort_chunk"]), force=orders[0] if (orders and cfg.get("_failed")) else None)
        b = run(d2, ".pin", 10 ** 6, 10 ** 6)
    if a[0] != b[0]:
        return dict(violation="confidence chunk %s / merge chunk %s (%s): %s, reference: %s" % (inp["confidence_chunk"], inp["merge_sort_chunk"], inp.get("suffix"), a, b))
    if a[0] == "ok" and a[1] != b[1]:
        diff = [f for f in set(a[1]) | set(b[1]) if a[1].get(f) != b[1].get(f)]
        return dict(violation="result files differ from the reference run (chunk %s/%s, %s): %s: %r vs %r" % (inp["confidence_chunk"], inp["merge_sort_chunk"], inp.get("suffix"), diff, a[1].get(diff[0]), b[1].get(diff[0])))
    return dict(outputs=None, violation=None)


def _c10_real(name):
    def f(cfg, inp):
        from checks import c10
        return c10.REAL[name](cfg, inp)
    return f


def real_padded_ids(cfg, inp):
    """Known finding (not reachable by the symbolic model, whose identifier cells are numbers or opaque text): pandas infers
    the dtype of a text column per chunk, so zero-padded numeric PSM ids lose their padding in a confidence chunk that
    holds no non-numeric id and keep it in a chunk that does."""
    import tempfile
    from pathlib import Path
    import numpy as np
    import pandas as pd
    import mokapot
    import mokapot.confidence as C
    ids, n = list(inp["ids"]), len(inp["ids"])
    df = pd.DataFrame({"SpecId": ids, "Label": [1, -1] * (n // 2), "ScanNr": np.arange(n) + 1, "ExpMass": [500.5 + i for i in range(n)],
                       "f1": np.linspace(3, -3, n), "f2": np.linspace(-1, 1, n), "Peptide": ["PEP%dK" % i for i in range(n)], "Proteins": ["P%d" % i for i in range(n)]})
    old = C.CONFIDENCE_CHUNK_SIZE
    res = {}
    try:
        with tempfile.TemporaryDirectory(prefix="verif_c05_") as d:
            d = Path(d)
            df.to_csv(d / "x.pin", sep="\t", index=False)
            for cs in (10 ** 6, int(cfg["chunk"])):
                C.CONFIDENCE_CHUNK_SIZE = cs
                ps = mokapot.read_pin([d / "x.pin"], max_workers=1)[0]
                out = d / ("out%d" % cs)
                out.mkdir()
                mokapot.assign_confidence([ps], max_workers=1, scores=[df["f1"].values], dest_dir=out, prefixes=[None], decoys=True)
                res[cs] = {f.name: f.read_text() for f in sorted(out.iterdir())}
    except Exception as ex:
        return dict(exception=repr(ex), error="padded-id replay raised %r" % (ex,))
    finally:
        C.CONFIDENCE_CHUNK_SIZE = old
    a, b = res[10 ** 6], res[int(cfg["chunk"])]
    if a != b:
        f = [k for k in a if a[k] != b.get(k)][0]
        return dict(violation="result file %s differs between one confidence chunk and chunks of %d rows: first row %r vs %r" % (f, int(cfg["chunk"]), a[f].splitlines()[1], b[f].splitlines()[1]))
    return dict(outputs=None, violation=None)


REAL = {"padded_ids": real_padded_ids, "nascan": _c10_real("nascan"), "read": _c10_real("read"), "brew_rel": real_brew_rel, "conf_rel": real_conf_rel}
