"""C06 - PEPs are probabilities, monotone in score and aligned with their PSM; the alternative
q-value estimators return one non-negative, score-monotone value per PSM in input order.

What is decided here is the *structure* the statement speaks of - one value per PSM at the PSM's
own position, range, monotonicity in the score, equal values for equal scores - for the real glue code
of mokapot.peps / mokapot.qvalues (peps_from_scores and its dispatch table, peps_from_scores_qvality,
peps_from_scores_kde_nnls, pdfs_from_scores, estimate_pi0_by_slope, monotonize_nnls,
peps_from_scores_hist_nnls, hist_data_from_scores, estimate_trials_and_successes, fit_nnls,
monotonize_simple, qvalues_from_peps, qvalues_from_counts), executed symbolically.

The iterative floating-point kernels underneath are NOT encoded; each is replaced by a stub that
returns arbitrary values constrained only by the kernel's contract (assume-guarantee; the contracts
are listed in the evidence and in DESIGN.md):
  scipy.optimize.nnls(A, b)       -> arbitrary d >= 0 of length A.shape[1]; called with exactly the
                                     keyword arguments the INSTALLED scipy accepts (signature probed)
  scipy.stats.gaussian_kde(x).pdf -> arbitrary strictly positive densities (float underflow to 0 is
                                     outside the claim); needs >= 2 non-identical points
  numpy.polyfit(x, y, 1)          -> arbitrary slope and intercept (x non-empty)
  numpy.histogram_bin_edges       -> K+1 increasing edges from min(scores) to max(scores)
  numpy.histogram                 -> arbitrary non-negative counts, one per bin
  triqler qvality.getQvaluesFromScores(targets, decoys, includeDecoys=True)
                                  -> PEPs of ALL scores in DESCENDING score order (what triqler
                                     documents and does), a non-increasing function of the score in (0, 1]
Matrices that are only ever handed to nnls are opaque (shape only). A division by a symbolic quantity
that may be zero (0/0 -> NaN in numpy) is assumed away and counted."""
import inspect

ID = "C06"


def setup():
    from symx import world, symnp
    world.import_mokapot_patched()
    P = world.mod("mokapot.peps")
    Q = world.mod("mokapot.qvalues")
    world.rebind(Q, np=symnp)
    return P, Q


class _Abort(Exception):
    pass


class Kernels:
    """contract stubs; one instance per explored path"""

    def __init__(self, ctx, cfg):
        import z3
        self.ctx, self.cfg, self.z3 = ctx, cfg, z3
        self.calls = []

    def fresh(self, name, lo=None, strict=False, hi=None):
        from symx.core import SNum
        z = self.z3.Real(self.ctx.fresh_name(name))
        if lo is not None:
            self.ctx.assume(z > lo if strict else z >= lo)
        if hi is not None:
            self.ctx.assume(z <= hi)
        return SNum(z)

    # --- scipy.optimize.nnls
    def nnls(self, A, b, *a, **kw):
        from symx import symnp
        import scipy.optimize
        inspect.signature(scipy.optimize.nnls).bind(A, b, *a, **kw)  # TypeError exactly when the installed scipy raises it
        self.calls.append("nnls")
        n = A.shape[1]
        if len(b) != A.shape[0]:
            raise ValueError("Incompatible dimensions. The first dimension of A is %d, while the shape of b is (%d,)" % (A.shape[0], len(b)))
        return symnp.SArray([self.fresh("nnls_d", 0) for _ in range(n)], symnp.float64), 0.0

    # --- scipy.stats
    def stats(self):
        k = self

        class gaussian_kde:
            def __init__(self, data):
                from symx import symnp, core
                items = list(data.items)
                if len(items) < 2:
                    raise ValueError("`dataset` input should have multiple elements.")
                if all(bool(items[0] == x) for x in items[1:]):
                    raise core.Abort("degenerate sample handed to the KDE (outside the statement's premise)")
                k.calls.append("gaussian_kde")

            def pdf(self, pts):
                from symx import symnp
                return symnp.SArray([k.fresh("kde_pdf", 0, strict=True) for _ in range(len(pts))], symnp.float64)
            evaluate = __call__ = pdf

        class S:
            pass
        S.gaussian_kde = gaussian_kde
        return S

    # --- numpy kernels
    def polyfit(self, x, y, deg):
        from symx import core
        if deg != 1:
            raise core.Unsupported("polyfit degree %r" % (deg,))
        if len(x) != len(y):
            raise TypeError("expected x and y to have same length")
        if len(x) == 0:
            raise core.Abort("polyfit on an empty head of the density (kernel-dependent, assumed away)")
        self.calls.append("polyfit")
        return self.fresh("polyfit_slope"), self.fresh("polyfit_icpt")

    def histogram_bin_edges(self, a, bins=10, **kw):
        from symx import symnp, core
        K = self.cfg.get("bins", 2)
        lo, hi = a.min(), a.max()
        if not bool(lo < hi):
            raise core.Abort("all scores equal: degenerate (outside the statement's premise)")
        self.calls.append("histogram_bin_edges")
        edges = [lo]
        for _ in range(K - 1):
            e = self.fresh("edge")
            self.ctx.assume(core._z(e) > core._z(edges[-1]))
            self.ctx.assume(core._z(e) < core._z(hi))
            edges.append(e)
        edges.append(hi)
        return symnp.SArray(edges, symnp.float64)

    def histogram(self, a, bins=10, density=False, **kw):
        from symx import symnp
        self.calls.append("histogram")
        nb = len(bins) - 1
        return symnp.SArray([self.fresh("hist", 0) for _ in range(nb)], symnp.float64), bins

    # --- triqler
    def qvality(self):
        k = self

        class QV:
            VERB = 3

            @staticmethod
            def getQvaluesFromScores(targetScores, decoyScores, includePEPs=False, includeDecoys=False, tdcInput=False, pi0=1.0, **kw):
                from symx import symnp, core
                z3 = k.z3
                if len(targetScores) == 0 or len(decoyScores) == 0:
                    raise SystemExit("ERROR: no %s hits available for PEP calculation" % ("target" if len(targetScores) == 0 else "decoy"))
                k.calls.append("qvality")
                allsc = list(targetScores.items) + list(decoyScores.items) if includeDecoys else list(targetScores.items)
                order = symnp.argsort(symnp.SArray([-x for x in allsc], symnp.float64), kind="stable")
                ev = [allsc[int(i)] for i in order.items]  # descending
                probs = []
                for i, s in enumerate(ev):
                    p = k.fresh("qvality_pep", 0, strict=True, hi=1)
                    if probs:
                        k.ctx.assume(core._z(p) >= core._z(probs[-1]))
                        k.ctx.assume(z3.Implies(core._z(s) == core._z(ev[i - 1]), core._z(p) == core._z(probs[-1])))
                    probs.append(p)
                return None, symnp.SArray(probs, symnp.float64)

            @staticmethod
            def getQvaluesFromScoresQvality(*a, **kw):
                from symx import core
                raise core.Unsupported("qvality binary")
        return QV


def _world(ctx, cfg):
    """rebind the kernels for this path; returns (P, Q, kernels)"""
    import types
    from symx import symnp, world, core
    P, Q = setup()
    K = Kernels(ctx, cfg)
    ns = types.SimpleNamespace(**{k: v for k, v in vars(symnp).items() if not k.startswith("__")})
    ns.polyfit = K.polyfit
    ns.histogram_bin_edges = K.histogram_bin_edges
    ns.histogram = K.histogram
    real_pi0 = P.__dict__.get("_real_estimate_pi0_by_slope") or P.estimate_pi0_by_slope
    P.__dict__["_real_estimate_pi0_by_slope"] = real_pi0
    K.pi0s = []

    def pi0_recorder(*a, **k):
        r = real_pi0(*a, **k)
        K.pi0s.append(r)
        return r
    world.rebind(P, np=ns, nnls=K.nnls, stats=K.stats(), qvality=K.qvality(), estimate_pi0_by_slope=pi0_recorder)
    Q.__dict__["estimate_pi0_by_slope"] = pi0_recorder
    assumed = [0]

    def div_hook(x, y):
        z = core._z(y)
        assumed[0] += 1
        ctx.assume(z != 0)
    core.DIV_HOOK[0] = div_hook
    return P, Q, K, assumed


def _inputs(ctx, cfg):
    import z3
    from symx import symnp
    from symx.core import SNum, SBool
    n = cfg["n"]
    zs = [z3.Real("s%d" % i) for i in range(n)]
    zt = [z3.Bool("t%d" % i) for i in range(n)]
    need = cfg.get("min_each", 1)
    ctx.assume(z3.Sum([z3.If(t, 1, 0) for t in zt]) >= need)
    ctx.assume(z3.Sum([z3.If(t, 0, 1) for t in zt]) >= need)
    labels = [bool(SBool(t)) for t in zt]  # decided up front: masks are concrete afterwards
    scores = symnp.SArray([SNum(z) for z in zs], symnp.float64)
    targets = symnp.SArray(labels, symnp.bool_)
    return zs, labels, scores, targets


def _structure(zs, out, lo_only=False, what="pep"):
    """the obligations of the statement over the returned vector"""
    import z3
    from symx import core
    n = len(zs)
    props = [("one_value_per_psm", z3.BoolVal(len(out) == n))]
    if len(out) != n:
        return props
    o = [core._z(x) for x in out.items]
    o = [z3.ToReal(x) if z3.is_int(x) else x for x in o]
    for i in range(n):
        props.append(("%s%d_not_negative" % (what, i), o[i] >= 0))
        if not lo_only:
            props.append(("%s%d_at_most_one" % (what, i), o[i] <= 1))
        for j in range(n):
            if i != j:
                props.append(("%s_never_decreases_as_the_score_worsens[%d better than %d]" % (what, i, j), z3.Implies(zs[i] > zs[j], o[i] <= o[j])))
                if i < j:
                    props.append(("equal_scores_equal_%s[%d,%d]" % (what, i, j), z3.Implies(zs[i] == zs[j], o[i] == o[j])))
    return props


def _pi0_props(K):
    """Lemma behind 'finite': the divisions assumed non-zero above are non-zero only if the proportion of
    incorrect targets handed on is strictly positive (a zero pi0 makes the NNLS right-hand side zero, the
    fit identically zero and the rescaling 0/0). Trusted for the rest: for a non-zero right-hand side the
    NNLS fit is not identically zero."""
    import z3
    from symx import core
    props = []
    for i, p in enumerate(K.pi0s):
        props.append(("pi0_estimate_%d_strictly_positive" % i, (core._z(p) > 0) if isinstance(p, core.Sym) else z3.BoolVal(bool(p > 0))))
    return props


def sym_pep(ctx, cfg):
    import z3
    from symx import symnp, core
    from symx.core import SNum, PathOutcome, Unsupported
    P, Q, K, assumed = _world(ctx, cfg)
    alg = cfg["alg"]

    def estimate(scores, targets):
        if alg == "kde_nnls":
            return P.peps_from_scores_kde_nnls(scores, targets, num_eval_scores=cfg.get("grid", 3))
        return P.peps_from_scores(scores, targets, alg)
    props2 = []
    try:
        zs, labels, scores, targets = _inputs(ctx, cfg)
        inputs = dict(scores=[SNum(z) for z in zs], targets=labels, alg=alg)
        try:
            out = estimate(scores, targets)
            if cfg.get("again"):
                # a session: the SAME array objects are refilled in place with other scores and estimated again
                # (a table re-scored in a loop); the second result must belong to the second contents
                out = symnp.SArray(list(out.items), out.dtype)
                zs2 = [z3.Real("s2_%d" % i) for i in range(len(zs))]
                scores.items[:] = [SNum(z) for z in zs2]
                inputs["scores2"] = [SNum(z) for z in zs2]
                out2 = estimate(scores, targets)
                props2 = [("second_call:" + k, v) for k, v in _structure(zs2, out2)]
        except Unsupported:
            raise
        except ZeroDivisionError:
            raise core.Abort("concrete division by zero in the shim (numpy: inf/nan) - outside the arithmetic modelled")
        except Exception as ex:
            return PathOutcome([], inputs, None, "exc", note=type(ex).__name__ + ":" + str(ex)[:90])
    finally:
        core.DIV_HOOK[0] = None
    ctx.notes.append(("assumed_nonzero_denominators", assumed[0]))
    ctx.notes.append(("kernel_calls", len(K.calls)))
    return PathOutcome(_structure(zs, out) + props2 + _pi0_props(K), inputs, None)


def sym_qvalues(ctx, cfg):
    import z3
    from symx import symnp, core
    from symx.core import SNum, PathOutcome, Unsupported
    P, Q, K, assumed = _world(ctx, cfg)
    alg = cfg["alg"]
    try:
        zs, labels, scores, targets = _inputs(ctx, cfg)
        inputs = dict(scores=[SNum(z) for z in zs], targets=labels, alg=alg)
        try:
            if alg == "from_peps":
                zp = [z3.Real("pep%d" % i) for i in range(len(zs))]
                for i, p in enumerate(zp):
                    ctx.assume(z3.And(p >= 0, p <= 1))
                    for j in range(len(zs)):  # PEPs as C06 promises them: a non-increasing function of the score
                        if i != j:
                            ctx.assume(z3.Implies(zs[i] > zs[j], p <= zp[j]))
                            ctx.assume(z3.Implies(zs[i] == zs[j], p == zp[j]))
                inputs["peps"] = [SNum(p) for p in zp]
                out = Q.qvalues_from_peps(scores, targets, symnp.SArray([SNum(p) for p in zp], symnp.float64))
            else:
                out = Q.qvalues_from_scores(scores, targets, alg)
        except Unsupported:
            raise
        except ZeroDivisionError:
            raise core.Abort("concrete division by zero in the shim (numpy: inf/nan): the best-scoring PSM is a decoy - outside the arithmetic modelled")
        except Exception as ex:
            return PathOutcome([], inputs, None, "exc", note=type(ex).__name__ + ":" + str(ex)[:90])
    finally:
        core.DIV_HOOK[0] = None
    ctx.notes.append(("assumed_nonzero_denominators", assumed[0]))
    # (the pi0 > 0 lemma is not asked here: it guards the 0/0 of the NNLS rescaling in the PEP routines only; a count
    #  ratio scaled by pi0 = 0 is all zeros, which the statement allows, so a failure could not be shown on the real code)
    props = _structure(zs, out, lo_only=True, what="q")
    if alg == "from_counts" and K.pi0s and len(out) == len(zs):
        # Anchor of a count-based FDR estimate: accepting EVERYTHING is estimated at pi0, the assumed share of
        # incorrect targets ((#T/#D) * #D/#T = 1). It is observable at the worst-scoring PSM whenever decoys are
        # nowhere over-represented among the better scores (then the running maximum ends at the anchor).
        nT, nD = sum(1 for l in labels if l), sum(1 for l in labels if not l)
        n = len(zs)
        o = [core._z(x) for x in out.items]
        conds = [z3.Distinct(zs)] if n > 1 else []
        for i in range(n):
            Di = z3.Sum([z3.If(zs[j] >= zs[i], 1, 0) for j in range(n) if not labels[j]]) if nD else z3.IntVal(0)
            Ti = z3.Sum([z3.If(zs[j] >= zs[i], 1, 0) for j in range(n) if labels[j]])
            conds.append(nT * Di <= nD * Ti)
        from fractions import Fraction
        symbolic_pi0 = isinstance(K.pi0s[0], core.Sym)
        pi0 = core._z(K.pi0s[0]) if symbolic_pi0 else z3.RealVal(Fraction(K.pi0s[0]))  # the float's exact value
        for i in range(n):
            worst = z3.And([zs[i] <= zs[j] for j in range(n)])
            # asked up to float rounding: the count ratio #T/#D is a concrete float in the shim as in numpy (1/3 is not
            # a third), and so is the floor 1e-10 of estimate_pi0_by_slope (1e-10 * 3.0 / 3 != 1e-10)
            lo, hi = z3.RealVal(Fraction(1) - Fraction(1, 10 ** 9)), z3.RealVal(Fraction(1) + Fraction(1, 10 ** 9))
            same = z3.And(o[i] >= pi0 * lo, o[i] <= pi0 * hi)
            props.append(("accepting_everything_is_estimated_at_pi0[worst=%d]" % i, z3.Implies(z3.And(z3.And(conds), worst), same)))
    return PathOutcome(props, inputs, None)


CONTRACTS = ["scipy.optimize.nnls -> arbitrary d >= 0 (argument list checked against the installed scipy's signature)",
             "scipy.stats.gaussian_kde(x).pdf -> arbitrary strictly positive values; >= 2 non-identical sample points",
             "numpy.polyfit(x, y, 1) -> arbitrary slope/intercept, x non-empty", "numpy.histogram_bin_edges -> K+1 increasing edges spanning the scores",
             "numpy.histogram -> arbitrary non-negative counts", "triqler getQvaluesFromScores(includeDecoys=True) -> PEPs of all scores in DESCENDING score order, non-increasing in the score, in (0,1]",
             "matrices handed only to nnls are opaque", "divisions by a symbolic quantity that may be zero are assumed away (counted per path)"]


def harnesses(tier):
    from symx.runner import Harness
    P, Q = setup()
    hs = []
    nmax = 3 if tier == "quick" else 4
    for alg, fns in (("qvality", [P.peps_from_scores, P.peps_from_scores_qvality]),
                     ("hist_nnls", [P.peps_from_scores, P.peps_from_scores_hist_nnls, P.hist_data_from_scores, P.estimate_trials_and_successes, P.estimate_pi0_by_slope, P.fit_nnls]),
                     ("kde_nnls", [P.peps_from_scores_kde_nnls, P.pdfs_from_scores, P.estimate_pi0_by_slope, P.monotonize_nnls])):
        for n in range(2, nmax + 1):
            if alg == "kde_nnls" and n < 4 and tier == "quick":
                n_, need = 4, 2
            elif alg == "kde_nnls":
                n_, need = n if n >= 4 else 4, 2
            else:
                n_, need = n, 1
            cfg = dict(n=n_, alg=alg, min_each=need, bins=2, grid=3)
            name = "pep[%s,n=%d]" % (alg, n_)
            if any(h.name == name for h in hs):
                continue
            hs.append(Harness(name, cfg, sym_pep, real="pep", functions=fns, bounds=dict(N=n_, bins=2, grid=3), stubs=CONTRACTS,
                              assumptions=[">= %d target(s) and decoy(s), scores finite reals, not all equal" % need], sample_rate=0.02))
    for alg in ("hist_nnls", "qvality"):
        hs.append(Harness("pep[%s,n=2,same arrays refilled in place and estimated again]" % alg, dict(n=2, alg=alg, min_each=1, bins=2, grid=3, again=True), sym_pep, real="pep",
                          functions=[P.peps_from_scores], bounds=dict(N=2, bins=2, calls=2), stubs=CONTRACTS,
                          assumptions=[">= 1 target and decoy, scores finite reals, not all equal", "labels unchanged between the two calls"], sample_rate=0.05))
    for alg, fns in (("from_peps", [Q.qvalues_from_peps, P.monotonize_simple]), ("from_counts", [Q.qvalues_from_scores, Q.qvalues_from_counts, P.hist_data_from_scores, P.estimate_pi0_by_slope, P.monotonize_simple])):
        for n in range(2, nmax + 1):
            cfg = dict(n=n, alg=alg, min_each=1, bins=2)
            hs.append(Harness("qvalues[%s,n=%d]" % (alg, n), cfg, sym_qvalues, real="qvalues", functions=fns, bounds=dict(N=n, bins=2), stubs=CONTRACTS,
                              assumptions=["PEPs handed to qvalues_from_peps satisfy C06 themselves (in [0,1], non-increasing in the score)", "the best-scoring PSM is a target where a count ratio is formed (otherwise numpy yields inf)"],
                              sample_rate=0.02))
    if tier == "thorough":
        # (kde_nnls with n=5: z3 answers unknown on the non-linear interpolation queries within 60 s - not included)
        # (hist_nnls with 3 bins and kde_nnls with a 4-point grid were tried: z3 decides them in 80-200 s on an idle
        #  machine but answers 'unknown' under load - not included, a tier must not be inconclusive by chance)
        for name, cfg, fn, real in (("qvalues[from_counts,n=3,bins=3]", dict(n=3, alg="from_counts", min_each=1, bins=3), sym_qvalues, "qvalues"),):
            hs.append(Harness(name, cfg, fn, real=real, functions=[P.peps_from_scores, Q.qvalues_from_scores], bounds=dict(N=cfg["n"], bins=cfg["bins"], grid=cfg.get("grid")), stubs=CONTRACTS,
                              assumptions=["as the smaller harnesses of the same kind"], sample_rate=0.01))
    return hs


def evidence_extra(tier):
    return dict(kernel_contracts=CONTRACTS,
                not_covered="the numeric behaviour of the kernels themselves (convergence, rounding, underflow of densities to 0, NaN propagation) and the qvality binary; "
                            "only the structure the statement speaks of is decided, for the glue code around the kernels")


# ------------------------------------------------------------------ concrete --
def _is_sorted(xs, desc):
    return all((a >= b) if desc else (a <= b) for a, b in zip(xs, xs[1:]))


def _embeddings(inp, every):
    """The real estimators cannot run on 2-4 PSMs. A counterexample is therefore replayed on larger data
    sets that mirror its STRUCTURE - order type of the whole input and of the target / decoy
    subsequences, tie pattern, labels of the best- and worst-scoring PSM - and the reported failing input
    is that data set, not the solver's. `every`: further arrangements of the same realistic pool (random,
    sorted either way, each kind sorted separately); only used when a counterexample is being replayed.
    (A cruder 'one block of PSMs per PSM of the counterexample' data set was tried and removed: fully
    separated targets and decoys are degenerate for hist_nnls - 0/0 - and gave a false alarm.)"""
    import numpy as np
    sc = [float(x) for x in inp["scores"]]
    tg = [bool(x) for x in inp["targets"]]
    n = len(sc)
    rng = np.random.default_rng(12345)
    m = 240
    t = rng.random(m) < 0.5
    s = rng.normal(0.0, 1.0, m)
    good = t & (rng.random(m) < 0.45)
    s[good] += 4.0
    ties = len(set(sc)) < len(sc)
    if ties:
        s = np.round(s * 2) / 2
    # labels of the extremes as in the counterexample
    best, worst = int(np.argmax(sc)), int(np.argmin(sc))
    top_unique = sum(1 for x in sc if x == sc[best]) == 1
    if top_unique:
        k = int(np.argmax(s))
        if t[k] != tg[best]:
            cand = np.flatnonzero(t == tg[best])
            s[cand[0]] = s.max() + 0.25
    if sum(1 for x in sc if x == sc[worst]) == 1:
        k = int(np.argmin(s))
        if t[k] != tg[worst]:
            cand = np.flatnonzero(t == tg[worst])
            s[cand[-1]] = s.min() - 0.25
    # order type: whole input, target subsequence, decoy subsequence
    ts = [x for x, l in zip(sc, tg) if l]
    ds = [x for x, l in zip(sc, tg) if not l]
    for desc, word in ((True, "best first"), (False, "worst first")):
        key = -s if desc else s
        if _is_sorted(sc, desc) and not _is_sorted(sc, not desc):
            o = np.argsort(key, kind="stable")
            how = "sorted %s" % word
            break
        if len(ts) + len(ds) > 2 and _is_sorted(ts, desc) and _is_sorted(ds, desc) and not _is_sorted(sc, desc) and not _is_sorted(sc, not desc):
            first_t = tg[0]
            a = np.flatnonzero(t == first_t)
            b = np.flatnonzero(t != first_t)
            o = np.concatenate([a[np.argsort(key[a], kind="stable")], b[np.argsort(key[b], kind="stable")]])
            how = "%s sorted %s followed by %s sorted %s" % ("targets" if first_t else "decoys", word, "decoys" if first_t else "targets", word)
            break
    else:
        if n == 2 and tg[0] != tg[1] and not ties:
            # two PSMs of different kinds: also 'each kind sorted, the whole not' (both directions coincide)
            desc = sc[0] < sc[1]  # the whole is ascending: read it as two best-first runs
            key = -s
            a = np.flatnonzero(t == tg[0])
            b = np.flatnonzero(t != tg[0])
            o = np.concatenate([a[np.argsort(key[a], kind="stable")], b[np.argsort(key[b], kind="stable")]])
            how = "%s sorted best first followed by %s sorted best first" % ("targets" if tg[0] else "decoys", "decoys" if tg[0] else "targets")
        else:
            o = rng.permutation(m)
            how = "in random order"
    yield s[o].astype(float), t[o], "240 realistic PSMs " + how
    if every:
        o2 = rng.permutation(m)
        yield s[o2].astype(float), t[o2], "240 realistic PSMs in random order"
        o3 = np.argsort(s, kind="stable")
        yield s[o3].astype(float), t[o3], "240 realistic PSMs sorted worst first"
        o4 = np.argsort(-s, kind="stable")
        yield s[o4].astype(float), t[o4], "240 realistic PSMs sorted best first"
        # very clean target sets (pi0 near 0): every target correct / three stragglers among the decoys
        for stragglers in (0, 3):
            rc = np.random.default_rng(777 + stragglers)
            tc = np.arange(m) % 2 == 0
            sc2 = np.where(tc, rc.normal(6.0, 1.0, m), rc.normal(0.0, 1.0, m))
            if stragglers:
                sc2[np.flatnonzero(tc)[:stragglers]] = rc.normal(-1.5, 0.3, stragglers)
            oc = rc.permutation(m)
            yield sc2[oc].astype(float), tc[oc], "240 PSMs with a very clean target set (%d incorrect targets), random order" % stragglers
        for first_t in (tg[0], not tg[0]):
            for desc, word in ((True, "best first"), (False, "worst first")):
                key = -s if desc else s
                a, b = np.flatnonzero(t == first_t), np.flatnonzero(t != first_t)
                o5 = np.concatenate([a[np.argsort(key[a], kind="stable")], b[np.argsort(key[b], kind="stable")]])
                yield s[o5].astype(float), t[o5], "240 realistic PSMs: %s sorted %s followed by %s sorted %s" % ("targets" if first_t else "decoys", word, "decoys" if first_t else "targets", word)


def _check_vector(s, out, lo_only, what):
    import numpy as np
    out = np.asarray(out, dtype=float)
    if out.shape != s.shape:
        return "%d %ss for %d PSMs" % (out.size, what, s.size)
    if not np.all(np.isfinite(out)):
        return "%s not finite at %d positions" % (what, int((~np.isfinite(out)).sum()))
    if out.min() < 0 or (not lo_only and out.max() > 1):
        return "%s outside [0,1]: min %r max %r" % (what, float(out.min()), float(out.max()))
    o = np.argsort(-s, kind="stable")
    so, oo = s[o], out[o]
    bad = np.nonzero(np.diff(oo) < -1e-9)[0]
    if len(bad):
        i = int(bad[0])
        return "%s decreases as the score worsens: score %r has %s %r, the worse score %r has %r (%d such steps)" % (what, float(so[i]), what, float(oo[i]), float(so[i + 1]), float(oo[i + 1]), len(bad))
    for v in np.unique(s):
        g = out[s == v]
        if g.max() - g.min() > 1e-9:
            return "equal scores %r get different %ss %r .. %r" % (float(v), what, float(g.min()), float(g.max()))
    return None


def _run(cfg, inp, call, lo_only, what, label):
    import warnings
    last = dict(outputs=None, violation=None)
    for s, t, how in _embeddings(inp, bool(cfg.get("_failed"))):
        arr, lab = s.copy(), t.copy()
        with warnings.catch_warnings():
            warnings.simplefilter("ignore")
            try:
                out = call(arr, lab)
            except BaseException as ex:
                return dict(exception=repr(ex), violation="%s on %s raised %r" % (label, how, ex))
        v = _check_vector(s, out, lo_only, what)
        if v:
            return dict(outputs=None, violation="%s on %s: %s" % (label, how, v))
        if cfg.get("again"):
            # the same array objects refilled in place: the scores of the targets reversed among the targets, those of the
            # decoys among the decoys (every PSM keeps a score of its own kind), and estimated again
            import numpy as np
            s2 = s.copy()
            for kind in (True, False):
                idx = np.flatnonzero(t == kind)
                s2[idx] = s[idx][::-1]
            arr[:] = s2
            with warnings.catch_warnings():
                warnings.simplefilter("ignore")
                try:
                    out2 = call(arr, lab)
                except BaseException as ex:
                    return dict(exception=repr(ex), violation="%s on %s, second call on the same arrays refilled in place, raised %r" % (label, how, ex))
            v = _check_vector(s2, out2, lo_only, what)
            if v:
                return dict(outputs=None, violation="%s on %s, second call on the same arrays after they were refilled in place: %s" % (label, how, v))
    return last


def real_pep(cfg, inp):
    import mokapot.peps as P
    alg = inp["alg"]
    call = (lambda s, t: P.peps_from_scores_kde_nnls(s, t)) if alg == "kde_nnls" else (lambda s, t: P.peps_from_scores(s, t, alg))
    return _run(cfg, inp, call, False, "PEP", "peps_from_scores(..., %r)" % alg)


def real_qvalues(cfg, inp):
    import numpy as np
    import mokapot.qvalues as Q
    alg = inp["alg"]
    if alg == "from_peps":
        # PEPs that satisfy C06 themselves: a decreasing function of the score
        call = lambda s, t: Q.qvalues_from_peps(s, t, 1.0 / (1.0 + np.exp(s - 2.0)))
    else:
        import warnings
        import mokapot.peps as P

        def call(s, t):
            t = t.copy()
            t[np.argmax(s)] = True  # premise of the symbolic harness: the best-scoring PSM is a target
            return Q.qvalues_from_scores(s, t, alg)
        r = _run(cfg, inp, call, True, "q-value", "q-values %r" % alg)
        if r.get("violation"):
            return r
        # the anchor: accepting everything is estimated at pi0 (or more, after the running maximum) - on data with
        # twice as many targets as decoys, so that #T/#D and #D/#T differ
        for s, t, how in _embeddings(inp, False):
            keep = np.ones(len(s), dtype=bool)
            keep[np.flatnonzero(~t)[::2]] = False
            s, t = s[keep], t[keep]
            t[np.argmax(s)] = True
            with warnings.catch_warnings():
                warnings.simplefilter("ignore")
                try:
                    q = np.asarray(Q.qvalues_from_scores(s.copy(), t.copy(), alg), dtype=float)
                    _, td, dd = P.hist_data_from_scores(s, t, density=True)
                    pi0 = float(P.estimate_pi0_by_slope(td, dd))
                except BaseException as ex:
                    return dict(exception=repr(ex), violation="q-values %r on %s (half of the decoys removed) raised %r" % (alg, how, ex))
            qw = float(q[np.argmin(s)])
            if qw < pi0 * (1 - 1e-9):
                return dict(violation="q-values %r on %s with %d targets and %d decoys: accepting every PSM is estimated at FDR %r, below pi0 = %r (the estimate pi0 * #T/#D * D(x)/T(x) equals pi0 at the worst score)"
                                      % (alg, how, int(t.sum()), int((~t).sum()), qw, pi0))
        return r
    return _run(cfg, inp, call, True, "q-value", "q-values %r" % alg)


REAL = {"pep": real_pep, "qvalues": real_qvalues}
