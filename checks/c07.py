"""C07 - best-feature safety net: never silently worse than the best single feature.

Real code executed symbolically: the tail of mokapot.brew.brew() (comparison of the best
feature's count with the model's count, replacement of the scores) through the real
dataset.update_labels / _update_labels with the label column in three encodings, on top of
the real brew() pipeline with recording models that are trained, fail to train or are
overridden; and assign_confidence(descs=[d]) with a lower-is-better score (harness of C03)."""
import os

from . import brewlib, conflib, c03, spec

ID = "C07"


def sym_tail(ctx, cfg):
    import z3
    from symx import symnp, sympd, vfs, stubs, core
    from symx.core import SNum, SBool, PathOutcome, Unsupported
    from checks.c11 import tdc_by_spec
    B, D, P, U, T, Q = brewlib.setup()
    vfs.reset()
    brewlib.HASHES.clear()
    N, folds, enc = cfg["n"], 2, cfg["labels"]
    ds, s = brewlib.make_dataset(ctx, D, N, 0, 2, enc)
    # fold structure is C02's business: fix distinct spectra in a fixed hash order and alternating labels
    for i in range(N):
        ctx.assume(s["scan"][i] == i)
        ctx.assume(s["mass"][i] == 0)
    for i in range(N - 1):
        ctx.assume(brewlib.s_crc32(core.SKey((SNum(s["scan"][i]), SNum(s["mass"][i])))).z < brewlib.s_crc32(core.SKey((SNum(s["scan"][i + 1]), SNum(s["mass"][i + 1])))).z)
    # labels: every training fold needs a target and a decoy (else the documented ValueError ends the run)
    for i in range(N):
        ctx.assume(s["lab"][i] == z3.BoolVal(i % 2 == 0))
    B.CHUNK_SIZE_ROWS_PREDICTION = B.CHUNK_SIZE_READ_ALL_DATA = N + 1
    state = cfg["state"]
    zfp = [z3.Int("feat_pass_%d" % k) for k in range(folds)]
    for z in zfp:
        ctx.assume(z3.And(z >= 0, z <= N))
    zdescs = [z3.Bool("best_feat_desc_%d" % k) for k in range(folds)]
    zbf = [z3.Bool("best_feat_is_f1_%d" % k) for k in range(folds)]
    chosen_feats = [None] * folds  # the folds need not agree on the best feature, nor on its direction
    log = {}
    fail = {1: "worse", 2: "worse"} if state == "failed" else {}
    model = brewlib.StubModel(log, decision_function=False, fail=fail, override=(state == "override"))

    class M2(brewlib.StubModel):
        pass
    # feat_pass / desc are set per fold model when it is fitted (as Model.fit does)
    orig_fit = brewlib.StubModel.fit

    def fit(self, train_set):
        self.feat_pass = SNum(zfp[self.fold - 1], (0, N))
        self.desc = SBool(zdescs[self.fold - 1])
        self.best_feat = "f1" if SBool(zbf[self.fold - 1]) else "rowid"
        chosen_feats[self.fold - 1] = self.best_feat
        return orig_fit(self, train_set)
    model.fit = None
    brewlib.StubModel.fit = fit
    tfdr = z3.Real("test_fdr")
    ctx.assume(z3.And(tfdr > 0, tfdr <= 1))
    real_tdc = Q.__dict__["tdc"]
    Q.__dict__["tdc"] = tdc_by_spec(ctx)
    inputs = dict(files=brewlib.dataset_inputs([s]), feat_pass=[SNum(z) for z in zfp], best_descs=[SBool(z) for z in zdescs], best_feats=chosen_feats, test_fdr=SNum(tfdr), state=state, scores=_Scores(log, N))
    del model.fit
    try:
        _, models, scores, descs = B.brew([ds], model=model, test_fdr=SNum(tfdr), folds=folds, max_workers=1, rng=symnp.Generator("identity"))
    except Unsupported:
        raise
    except Exception as ex:
        import traceback
        tb = traceback.extract_tb(ex.__traceback__)[-1]
        return PathOutcome([], inputs, None, "exc", note="%s:%s @%s:%d" % (type(ex).__name__, str(ex)[:60], os.path.basename(tb.filename), tb.lineno))
    finally:
        brewlib.StubModel.fit = orig_fit
        Q.__dict__["tdc"] = real_tdc
    # ---- oracle ---------------------------------------------------------------------
    # model scores of the run: fold k+1 scores the rows of fold k; untrained -> zeros
    foldof = {}
    for uid, rows in log.get("predicts", []):
        for (_, r) in rows:
            foldof[r] = uid
    if state == "failed":
        mscores = [z3.RealVal(0)] * N
    else:
        mscores = [z3.Real("score_m%s_f0_r%d" % (foldof.get(r), r)) for r in range(N)]
    qs = spec.spec_q_terms(mscores, s["lab"], True)
    accepted_true = z3.Sum([z3.If(z3.And(s["lab"][i], qs[i] <= tfdr), 1, 0) for i in range(N)])
    feat_total = z3.If(zfp[0] >= zfp[1], zfp[0], zfp[1])
    fallback = z3.And(z3.BoolVal(state != "override"), feat_total > accepted_true)
    sc = scores[0]
    flat = _flatten(sc)
    props = [("score_count", z3.BoolVal(flat is not None and len(flat) == N))]
    if flat is not None and len(flat) == N:
        def is_feature(k):
            vals = s["feat"] if chosen_feats[k] == "f1" else [z3.RealVal(i) for i in range(N)]
            return z3.And(z3.And([core._z(flat[i]) == vals[i] for i in range(N)]), core.zbool(descs[0]) == zdescs[k])
        # the fold whose best feature accepted most (the first of them on a tie) provides feature and direction
        is_best = z3.If(zfp[0] >= zfp[1], is_feature(0), is_feature(1)) if None not in chosen_feats else z3.BoolVal(True)
        is_model = z3.And([core._z(flat[i]) == mscores[i] for i in range(N)])
        props.append(("falls_back_to_best_feature_when_it_accepts_more", z3.Implies(fallback, is_best)))
        props.append(("keeps_model_scores_otherwise", z3.Implies(z3.Not(fallback), z3.And(is_model, core.zbool(descs[0]) == z3.BoolVal(True)))))
        # (the fallback returns an (N, 1) array; the statement does not fix the shape and the replay confirms
        #  that confidence assignment accepts it, so no shape obligation is asserted)
    return PathOutcome(props, inputs, None)


def _flatten(sc):
    from symx import symnp
    if isinstance(sc, symnp.SArray):
        return list(sc.items)
    if isinstance(sc, symnp.SArray2) and sc.ncol == 1:
        return [r[0] for r in sc.rows]
    return None


class _Scores:
    def __init__(self, log, n):
        self.log, self.n = log, n

    def __symx_eval__(self, m):
        import z3
        from symx import core
        out = []
        for uid, rows in self.log.get("predicts", []):
            for (_, r) in rows:
                out.append([uid, r, core.to_jsonable(core.eval_model(m, z3.Real("score_m%s_f0_r%d" % (uid, r))))])
        return out


def sym_desc(ctx, cfg):
    """assign_confidence with a lower-is-better score: every C03 obligation with 'best' = lowest."""
    import z3
    from symx import vfs, symnp, core
    from symx.core import SNum, PathOutcome, Unsupported
    C, W, U, T, D, Q = conflib.setup()
    vfs.reset()
    n = cfg["n"]
    ps, s = conflib.make_collection(ctx, n, 0, "bool")
    C.CONFIDENCE_CHUNK_SIZE = U.MERGE_SORT_CHUNK_SIZE = n + 1
    desc = cfg["desc"]
    inputs = dict(collections=conflib.collection_inputs([s]), desc=desc)
    try:
        c03.run_confidence(ctx, cfg, C, [s], [ps], [symnp.SArray([SNum(z) for z in s["score"]], symnp.float64)], [desc], True, True, True, [None])
    except Unsupported:
        raise
    except Exception as ex:
        return PathOutcome([], inputs, None, "exc", note=type(ex).__name__ + ":" + str(ex)[:80])
    return PathOutcome(c03.output_props(s, None, True, True, True, higher_is_better=desc), inputs, None)


def harnesses(tier):
    from symx.runner import Harness
    from symx import known
    B, D, P, U, T, Q = brewlib.setup()
    C = conflib.setup()[0]
    hs = []
    stubs = ["models -> recording duck-typed models (trained / failed training / override) with symbolic feat_pass and direction", "q-values constrained by the C01 formula (C01 discharges tdc)",
             "fold layout fixed (C02 checks it)", "files -> VFS"]
    n = 4 if tier == "quick" else 6
    for enc in ("pm1", "zero", "bool"):
        for state in ("trained", "failed", "override"):
            hs.append(Harness("tail[labels=%s,%s,n=%d]" % (enc, state, n), dict(n=n, labels=enc, state=state), sym_tail, real="tail",
                              functions=[B.brew, D.update_labels, D._update_labels, U.convert_targets_column], bounds=dict(N=n, folds=2), stubs=stubs,
                              assumptions=["alternating target/decoy labels, distinct spectra (fold logic is C02's)", "0 < test_fdr <= 1"], sample_rate=0.3))
    open_keys = known.open_keys("C07")
    hs.append(Harness("confidence[desc=True,n=3]", dict(n=3, desc=True), sym_desc, real="desc", functions=[C.assign_confidence], stubs=stubs, sample_rate=0.02))
    if "confidence-ignores-descs" not in open_keys:
        hs.append(Harness("confidence[desc=False,n=3]", dict(n=3, desc=False), sym_desc, real="desc", functions=[C.assign_confidence], stubs=stubs, sample_rate=0.02))
    return hs


# ------------------------------------------------------------------ concrete --
def real_tail(cfg, inp):
    import tempfile
    from pathlib import Path
    from fractions import Fraction
    import numpy as np
    import mokapot
    from checks.c02 import scripted_rng
    rows = inp["files"][0]
    n = len(rows["scan"])
    state = inp["state"]
    table = {(int(u), int(r)): float(v) for u, r, v in inp["scores"]}
    fp = [int(x) for x in inp["feat_pass"]]
    bdescs = [bool(x) for x in inp["best_descs"]]
    bfeats = list(inp["best_feats"])
    log = {}

    class Mdl:
        def __init__(self):
            class E:
                pass
            self.estimator = E()
            self.is_trained = False
            self.override = state == "override"
            self.best_feat, self.feat_pass, self.desc = "f1", 0, True
            self.fold = None

        def __deepcopy__(self, memo):
            m = Mdl()
            m.is_trained, m.fold = self.is_trained, self.fold
            return m

        def fit(self, train_set):
            self.feat_pass, self.desc, self.best_feat = fp[self.fold - 1], bdescs[self.fold - 1], bfeats[self.fold - 1] or "f1"
            if state == "failed":
                raise RuntimeError("Model performs worse after training.")
            self.is_trained = True
            return self

        def predict(self, psms):
            ids = [int(r) for r in psms.data["rowid"]]
            log.setdefault("predicts", []).append((self.fold, ids))
            return np.array([table.get((self.fold, r), 0.0) for r in ids], dtype=float)
    with tempfile.TemporaryDirectory(prefix="verif_c07_") as d:
        from checks.c02 import realize_keys
        scan, mass = list(range(n)), [0] * n
        # distinct spectra in ascending hash order are not needed concretely: any fold layout is fine for the tail
        p, df = brewlib.real_dataset(None, d, 0, dict(rows, scan=[i + 1 for i in range(n)], mass=[1] * n), cfg["labels"])
        try:
            ds = mokapot.read_pin(p, max_workers=1)[0]
            tfdr = float(inp["test_fdr"])
            _, models, scores, descs = mokapot.brew([ds], model=Mdl(), test_fdr=tfdr, folds=2, max_workers=1, rng=scripted_rng([]))
        except Exception as ex:
            return dict(exception=repr(ex), violation="brew raised %r" % (ex,))
        sc = np.asarray(scores[0], dtype=float)
        tg = [bool(x) for x in rows["labels"]]
        foldof = {}
        for f, ids in log.get("predicts", []):
            for r in ids:
                foldof[r] = f
        msc = [0.0] * n if state == "failed" else [table.get((foldof.get(r), r), 0.0) for r in range(n)]
        q = spec.conc_q([Fraction(x) for x in msc], tg, True)
        lab = spec.conc_labels(q, tg, Fraction(tfdr))
        if any(l is None for l in lab):
            return dict(skip=True)
        acc = sum(1 for l in lab if l == 1)
        fallback = state != "override" and max(fp) > acc
        kbest = 0 if fp[0] >= fp[1] else 1
        feat = [float(x) for x in rows["f1"]] if (bfeats[kbest] or "f1") == "f1" else [float(i) for i in range(n)]
        bdesc = bdescs[kbest]
        flat = sc.reshape(-1)
        if len(flat) != n:
            return dict(violation="%d scores for %d PSMs" % (len(flat), n))
        if fallback:
            if not np.allclose(flat, feat) or list(descs) != [bdesc]:
                return dict(violation="best feature accepts %d targets, the returned scores only %d (labels %s), yet brew returned scores %s descs %s instead of the feature %r = %s with direction %s of fold %d (per-fold best features %s, accepted %s, directions %s)"
                            % (max(fp), acc, cfg["labels"], flat.tolist(), list(descs), bfeats[kbest], feat, bdesc, kbest + 1, bfeats, fp, bdescs))
            if sc.ndim != 1:
                # the statement does not fix the array shape; confidence assignment must accept what brew returns
                try:
                    import mokapot.confidence as Cm
                    C = __import__("sys").modules["mokapot.confidence"]
                    old = C.peps_from_scores
                    C.peps_from_scores = lambda s_, t_, a="qvality": np.full(len(s_), 0.5)
                    try:
                        os.makedirs(os.path.join(d, "out"))
                        mokapot.assign_confidence([ds], max_workers=1, scores=scores, descs=[True], dest_dir=Path(d) / "out", prefixes=[None])
                    finally:
                        C.peps_from_scores = old
                except Exception as ex:
                    return dict(violation="fallback scores have shape %s and assign_confidence rejects them: %r" % (sc.shape, ex))
        else:
            if not np.allclose(flat, msc) or list(descs) != [True]:
                return dict(violation="model accepts %d >= best feature %d, yet brew returned %s descs %s instead of the model scores %s" % (acc, max(fp), flat.tolist(), list(descs), msc))
    return dict(outputs=None, violation=None)


def real_desc(cfg, inp):
    import tempfile
    from pathlib import Path
    import numpy as np
    import mokapot
    C = __import__("importlib").import_module("mokapot.confidence")
    C = __import__("sys").modules["mokapot.confidence"]
    desc = bool(inp["desc"])
    with tempfile.TemporaryDirectory(prefix="verif_c07d_") as d:
        os.makedirs(os.path.join(d, "in"))
        out = os.path.join(d, "out")
        os.makedirs(out)
        p, df = c03.real_collection(os.path.join(d, "in"), 0, inp["collections"][0], "bool", ".pin")
        ps = mokapot.read_pin(p, max_workers=1)[0]
        sc = [float(x) for x in inp["collections"][0]["scores"]]
        old = C.peps_from_scores
        C.peps_from_scores = __import__("checks.conflib", fromlist=["x"]).real_pep_stub
        try:
            mokapot.assign_confidence([ps], max_workers=1, scores=[np.array(sc, dtype=float)], descs=[desc], dest_dir=Path(out), prefixes=[None], decoys=True)
        except Exception as ex:
            return dict(exception=repr(ex), violation="assign_confidence raised %r" % (ex,))
        finally:
            C.peps_from_scores = old
        v = c03.check_outputs(df, sc, out, None, True, True, True, False, higher_is_better=desc)
    return dict(outputs=None, violation=("descs=[%s]: " % desc + v) if v else None)


REAL = {"tail": real_tail, "desc": real_desc}
