"""C08 - fixed seed gives identical results across runs (partial).

Decided here, on the real brew() (harness of C02), relationally inside one symbolic path:
 (b) feeding the models returned by one run back into a second run with the same seed, in ANY
     order (all permutations), reproduces the first run's scores;
 (c)+(d) two runs with the same seed agree - fold assignment, training sets and scores -
     whatever the task completion order; seeded generators are uninterpreted functions of
     (seed, call index), any draw from an unseeded or global generator is a fresh arbitrary
     permutation, so an RNG that is not threaded through shows up as a disagreement.
 (a) independence of read_fasta from set/dict iteration order (PYTHONHASHSEED) is obligation
     'grouping_independent_of_entry_and_hash_order' of check C16.
Trusted, not decided: bit-level reproducibility of numpy's PCG64, scikit-learn's solvers and
pandas' sort implementations."""
import itertools
import os

from . import brewlib, c02

ID = "C08"


def _train(ctx, cfg, B, D, sizes, memo, sched, seed=42):
    import z3
    from symx import symnp, stubs, core
    from symx.core import SNum
    dss, syms = [], []
    for fid, n in enumerate(sizes):
        ds, s = brewlib.make_dataset(ctx, D, n, fid, 2, "pm1")
        for i, z in enumerate(s["lab"]):
            ctx.assume(z == z3.BoolVal((i + fid) % 2 == 0))
        if cfg.get("fixed_hash_order"):
            # fold layout is C02's business: distinct spectra in a fixed hash order
            for i in range(n - 1):
                ctx.assume(z3.And(s["scan"][i] != s["scan"][i + 1],
                                  brewlib.s_crc32(core.SKey((SNum(s["scan"][i]), SNum(s["mass"][i])))).z < brewlib.s_crc32(core.SKey((SNum(s["scan"][i + 1]), SNum(s["mass"][i + 1])))).z))
        dss.append(ds)
        syms.append(s)
    B.CHUNK_SIZE_ROWS_PREDICTION = B.CHUNK_SIZE_READ_ALL_DATA = max(sizes) + 1
    stubs.MODE[0] = "nondet" if sched else "submission"
    log = {}
    split_rec = []
    real_split = D.OnDiskPsmDataset._split

    def rec_split(self, f_, r_):
        r = real_split(self, f_, r_)
        split_rec.append([[int(i) for i in a.items] for a in r])
        return r
    D.OnDiskPsmDataset._split = rec_split
    B.update_labels = lambda fn, s_, tc, fdr: symnp.SArray([0] * len(s_), symnp.float64)
    gen = symnp.Generator("seeded", memo=memo, seed=seed)
    try:
        return dss, syms, log, split_rec, gen
    finally:
        pass


def sym(ctx, cfg):
    import z3
    from symx import symnp, vfs, stubs, core
    from symx.core import SNum, PathOutcome, Unsupported
    B, D, P, U, T, Q = brewlib.setup()
    vfs.reset()
    brewlib.HASHES.clear()
    sizes, folds = cfg["sizes"], cfg["folds"]
    memo = {}
    real_split = D.OnDiskPsmDataset._split
    runs = []
    inputs = None
    try:
        # run A: training run
        dssA, syms, logA, splitA, genA = _train(ctx, cfg, B, D, sizes, memo, False)
        inputs = dict(files=brewlib.dataset_inputs(syms), folds=folds, mode=cfg["mode"],
                      hashes=[[brewlib.s_crc32(core.SKey((SNum(s["scan"][i]), SNum(s["mass"][i])))) for i in range(s["n"])] for s in syms])
        tf = SNum(z3.Real("test_fdr"))
        try:
            symnp.FLOAT_ADD_ORDER[0] = bool(cfg.get("ensemble"))
            _, modelsA, scoresA, _ = B.brew(dssA, model=brewlib.StubModel(logA, decision_function=False), test_fdr=tf, folds=folds, max_workers=2, rng=genA,
                                            subset_max_train=cfg.get("cap"), ensemble=bool(cfg.get("ensemble")))
        except (ValueError, RuntimeError) as ex:
            return PathOutcome([], inputs, None, "legit_exc", note=type(ex).__name__ + "(" + str(ex)[:40] + ")")
        D.OnDiskPsmDataset._split = real_split
        # run B
        # (other_seed: the models are fed back into a run under ANOTHER seed - every draw of run B is a fresh arbitrary one)
        dssB, _, logB, splitB, genB = _train(ctx, cfg, B, D, sizes, memo, cfg["mode"] == "rerun", seed=43 if cfg.get("other_seed") else 42)
        if cfg["mode"] == "rerun":
            modelB = brewlib.StubModel(logB, decision_function=False)
        else:
            order = symnp.nd_permutation(len(modelsA), "model_order") if len(modelsA) <= 3 else list(range(len(modelsA)))[::-1]
            ctx.notes.append(("model_order", order))
            modelB = [modelsA[i] for i in order]
            inputs["model_order"] = order
        try:
            _, modelsB, scoresB, _ = B.brew(dssB, model=modelB, test_fdr=tf, folds=folds, max_workers=2, rng=genB, subset_max_train=cfg.get("cap"), ensemble=bool(cfg.get("ensemble")))
        except Unsupported:
            raise
        except Exception as ex:
            return PathOutcome([("second_run_with_the_same_seed_succeeds: %s" % (type(ex).__name__ + ":" + str(ex)[:60]), z3.BoolVal(False))], inputs, None)
    except Unsupported:
        raise
    finally:
        D.OnDiskPsmDataset._split = real_split
        stubs.MODE[0] = "submission"
        symnp.FLOAT_ADD_ORDER[0] = False
    if cfg.get("other_seed"):
        # the seed may reorder the rows inside a fold, never move a PSM to another fold: the models that are fed
        # back were trained on the complement of THEIR fold and must not meet their training PSMs
        props = [("same_fold_membership_under_another_seed", z3.BoolVal([[sorted(f) for f in c] for c in splitA] == [[sorted(f) for f in c] for c in splitB]))]
        heldout = True
        for uid, rows in logA.get("predicts", []):
            m = [mm for mm in modelsA if mm.uid == uid]
            heldout = heldout and all(tuple(r) not in set(map(tuple, m[0].trained_on or [])) for r in rows) if m else heldout
        props.append(("no_psm_scored_by_a_model_trained_on_it", z3.BoolVal(bool(heldout))))
    else:
        props = [("same_fold_assignment", z3.BoolVal(splitA == splitB))]
    for fid, (x, y) in enumerate(zip(scoresA, scoresB)):
        props.append(("file%d_score_count" % fid, z3.BoolVal(len(x) == len(y))))
        for i, (u, v) in enumerate(zip(x.items, y.items)):
            props.append(("file%d_row%d_same_score" % (fid, i), core._z(u) == core._z(v)))
    if cfg["mode"] == "rerun":
        ta = sorted((m.fold, sorted(m.trained_on or [])) for m in modelsA)
        tb = sorted((m.fold, sorted(m.trained_on or [])) for m in modelsB)
        props.append(("same_training_sets", z3.BoolVal(ta == tb)))
    return PathOutcome(props, inputs, None)


def sym_split_sessions(ctx, cfg):
    """(a') fold assignment in two interpreter sessions (different PYTHONHASHSEED): the spectrum key
    contains the optional file-name column (a str). crc32 is an uninterpreted function of the key;
    builtin hash() of a tuple with a str member is a DIFFERENT uninterpreted function in each session."""
    import z3
    from symx import symnp, vfs, core
    from symx.core import SNum, PathOutcome, Unsupported
    B, D, P, U, T, Q = brewlib.setup()
    vfs.reset()
    brewlib.HASHES.clear()
    n, folds = cfg["n"], cfg["folds"]
    memo = {}
    out = []
    s = None
    try:
        for session in (0, 1):
            brewlib.SESSION[0] = session
            ds, s = brewlib.make_dataset(ctx, D, n, 0, 1, "pm1", filecol=cfg.get("filecol", True))
            r = ds._split(folds, symnp.Generator("seeded", memo=memo, seed=42))
            out.append([[int(i) for i in a.items] for a in r])
    except Unsupported:
        raise
    except Exception as ex:
        return PathOutcome([], dict(scan=[SNum(z) for z in s["scan"]] if s else None, folds=folds), None, "exc", note=type(ex).__name__ + ":" + str(ex)[:80])
    finally:
        brewlib.SESSION[0] = 0
    inputs = dict(scan=[SNum(z) for z in s["scan"]], folds=folds, filecol=cfg.get("filecol", True))
    props = [("same_fold_assignment_in_a_fresh_interpreter: %s vs %s" % (out[0], out[1]), z3.BoolVal(out[0] == out[1]))]
    return PathOutcome(props, inputs, None, prefer=[z3.Distinct(s["scan"])] if n > 1 else [])


def sym_default_model(ctx, cfg):
    """brew(psms, rng=seed) with the default model: every random source of the model that brew builds
    must derive from the seed. The real PercolatorModel.__init__ runs (numpy -> shim: a generator
    built without a seed is arbitrary on every draw, a seeded one is a function of (seed, index));
    construction is intercepted right after __init__ and the run is ended there."""
    import z3
    from symx import symnp, vfs, core, world
    from symx.core import SNum, PathOutcome, Unsupported
    B, D, P, U, T, Q = brewlib.setup()
    M = world.mod("mokapot.model")
    world.rebind(M, np=symnp)
    vfs.reset()
    brewlib.HASHES.clear()
    memo = {}
    seen = []

    class _Stop(BaseException):
        pass
    RealPM = M.PercolatorModel

    class Rec(RealPM):
        def __init__(self, *a, **k):
            RealPM.__init__(self, *a, **k)
            seen.append(self.estimator.cv.random_state)
            raise _Stop()
    old = B.PercolatorModel
    B.PercolatorModel = Rec
    try:
        for run in range(2):
            ds, s = brewlib.make_dataset(ctx, D, cfg["n"], 0, 2, "pm1")
            try:
                B.brew([ds], model=None, test_fdr=0.01, folds=2, max_workers=1, rng=symnp.Generator("seeded", memo=memo, seed=42))
            except _Stop:
                pass
    except Unsupported:
        raise
    except Exception as ex:
        return PathOutcome([], dict(n=cfg["n"]), None, "exc", note=type(ex).__name__ + ":" + str(ex)[:80])
    finally:
        B.PercolatorModel = old
    props = [("default_model_built_twice", z3.BoolVal(len(seen) == 2))]
    if len(seen) == 2:
        a, b = seen
        same = (core._z(a) == core._z(b)) if isinstance(a, core.Sym) or isinstance(b, core.Sym) else z3.BoolVal(a == b)
        props.append(("hyperparameter_cv_folds_of_the_default_model_derive_from_the_seed", same))
    return PathOutcome(props, dict(n=cfg["n"]), None)


def sym_user_model(ctx, cfg):
    """brew(psms, model=Model(estimator), rng=seed) with a model the user built WITHOUT an rng: brew must
    hand it the seeded generator (the shuffling inside Model.fit draws from model.rng). The real Model
    constructor and brew run; _fit_model is intercepted and one draw is taken from the rng of each fold's
    model copy."""
    import z3
    from symx import symnp, vfs, core, world
    from symx.core import PathOutcome, Unsupported
    from checks import c12
    B, D, P, U, T, Q = brewlib.setup()
    M = c12.setup()[0]
    vfs.reset()
    brewlib.HASHES.clear()
    memo = {}
    draws = []

    class _Stop(BaseException):
        pass

    def fake_fit_model(train_set, psms, model, fold):
        draws[-1].append(model.rng.integers(0, 10 ** 6))
        model.fold = fold + 1
        raise _Stop()
    old = B._fit_model
    B._fit_model = fake_fit_model
    Est = c12._estimator_class()
    c12._REC.clear()
    c12._REC[7] = dict(fits=[], scored=[], scores={}, scaled=False)
    try:
        for run in range(2):
            draws.append([])
            ds, s = brewlib.make_dataset(ctx, D, cfg["n"], 0, 2, "pm1")
            for i, z in enumerate(s["lab"]):
                ctx.assume(z == z3.BoolVal(i % 2 == 0))
            model = M.Model(Est(7), scaler="as-is", max_iter=1, override=True)  # no rng given
            try:
                B.brew([ds], model=model, test_fdr=0.01, folds=2, max_workers=1, rng=symnp.Generator("seeded", memo=memo, seed=42))
            except _Stop:
                pass
    except Unsupported:
        raise
    except Exception as ex:
        return PathOutcome([], dict(n=cfg["n"]), None, "exc", note=type(ex).__name__ + ":" + str(ex)[:80])
    finally:
        B._fit_model = old
    props = [("a_fold_model_was_about_to_be_fitted_in_both_runs", z3.BoolVal(len(draws) == 2 and all(len(d) == 1 for d in draws)))]
    if len(draws) == 2 and all(len(d) == 1 for d in draws):
        a, b = draws[0][0], draws[1][0]
        same = (core._z(a) == core._z(b)) if isinstance(a, core.Sym) or isinstance(b, core.Sym) else z3.BoolVal(a == b)
        props.append(("the_generator_of_a_user_supplied_model_derives_from_the_seed", same))
    return PathOutcome(props, dict(n=cfg["n"]), None)


def real_user_model(cfg, inp):
    import tempfile
    import numpy as np
    import mokapot
    from sklearn.svm import LinearSVC
    B = __import__("sys").modules["mokapot.brew"]
    n = int(inp["n"])
    draws = []

    class _Stop(BaseException):
        pass

    def fake_fit_model(train_set, psms, model, fold):
        draws.append(int(model.rng.integers(0, 10 ** 6)))
        raise _Stop()
    old = B._fit_model
    B._fit_model = fake_fit_model
    try:
        with tempfile.TemporaryDirectory(prefix="verif_c08u_") as d:
            rows = dict(scan=list(range(1, n + 1)), mass=[1] * n, labels=[i % 2 == 0 for i in range(n)], f1=[float(i) for i in range(n)], keycols=2)
            p, df = brewlib.real_dataset(None, d, 0, rows, "pm1")
            for run in range(2):
                ds = mokapot.read_pin(p, max_workers=1)[0]
                try:
                    mokapot.brew([ds], model=mokapot.Model(LinearSVC(dual=False)), test_fdr=0.01, folds=2, max_workers=1, rng=42)
                except _Stop:
                    pass
    except Exception as ex:
        return dict(exception=repr(ex), violation=None)
    finally:
        B._fit_model = old
    if len(draws) != 2:
        return dict(violation="expected one intercepted fit per run, got %d" % len(draws))
    if draws[0] != draws[1]:
        return dict(violation="brew(psms, model=Model(LinearSVC()), rng=42) twice: the generator of the fold model draws %d in the first run and %d in the second - the user's model keeps its entropy-seeded generator, so the shuffling in Model.fit is not reproducible"
                              % (draws[0], draws[1]))
    return dict(outputs=None, violation=None)


def real_default_model(cfg, inp):
    import tempfile
    import numpy as np
    import mokapot
    B = __import__("sys").modules["mokapot.brew"]
    n = int(inp["n"])
    seen = []

    class _Stop(BaseException):
        pass
    RealPM = B.PercolatorModel

    class Rec(RealPM):
        def __init__(self, *a, **k):
            RealPM.__init__(self, *a, **k)
            seen.append(int(self.estimator.cv.random_state))
            raise _Stop()
    B.PercolatorModel = Rec
    try:
        with tempfile.TemporaryDirectory(prefix="verif_c08d_") as d:
            rows = dict(scan=list(range(1, n + 1)), mass=[1] * n, labels=[i % 2 == 0 for i in range(n)], f1=[float(i) for i in range(n)], keycols=2)
            p, df = brewlib.real_dataset(None, d, 0, rows, "pm1")
            for run in range(2):
                ds = mokapot.read_pin(p, max_workers=1)[0]
                try:
                    mokapot.brew([ds], test_fdr=0.01, folds=2, max_workers=1, rng=42)
                except _Stop:
                    pass
    except Exception as ex:
        return dict(exception=repr(ex), violation=None)
    finally:
        B.PercolatorModel = RealPM
    if len(seen) != 2:
        return dict(violation="default model built %d times in two runs" % len(seen))
    if seen[0] != seen[1]:
        return dict(violation="brew(psms, rng=42) twice with the default model: the hyperparameter search of the model splits its folds with random_state %d in the first run and %d in the second "
                              "(PercolatorModel() is built without the seed; its generator is drawn from OS entropy before brew replaces it)" % (seen[0], seen[1]))
    return dict(outputs=None, violation=None)


def real_split_sessions(cfg, inp):
    """Two fresh interpreters with different PYTHONHASHSEED read the same PIN file (with a file-name
    column) and split it with the same seed."""
    import json
    import subprocess
    import sys
    import tempfile
    import pandas as pd
    from symx import world
    scans = [int(x) for x in inp["scan"]]
    n = len(scans)
    child = (
        "import sys, json; sys.path.insert(0, %r)\n"
        "import numpy as np, mokapot\n"
        "from pathlib import Path\n"
        "ds = mokapot.read_pin(Path(sys.argv[1]), max_workers=1)[0]\n"
        "r = ds._split(int(sys.argv[2]), np.random.default_rng(42))\n"
        "print('SPLIT' + json.dumps([[int(i) for i in a] for a in r]))\n" % world.REPO)
    with tempfile.TemporaryDirectory(prefix="verif_c08s_") as d:
        df = pd.DataFrame({"SpecId": list(range(n)), "Label": [1 if i % 2 == 0 else -1 for i in range(n)], "ScanNr": scans, "ExpMass": [1.0] * n,
                           "Peptide": ["PEP%d" % i for i in range(n)], "Proteins": ["PROT"] * n, "f1": [float(i) for i in range(n)]})
        if inp.get("filecol", True):
            df.insert(2, "filename", ["run0.mzML"] * n)
        p = os.path.join(d, "a.pin")
        df.to_csv(p, sep="\t", index=False)
        res = {}
        for hs in ("1", "2", "12345"):
            env = dict(os.environ, PYTHONHASHSEED=hs)
            env.pop("MOKAPOT_VERIF", None)
            pr = subprocess.run([sys.executable, "-c", child, p, str(int(inp["folds"]))], capture_output=True, text=True, env=env, timeout=600)
            lines = [l for l in pr.stdout.splitlines() if l.startswith("SPLIT")]
            if pr.returncode != 0 or not lines:
                return dict(exception=pr.stderr[-300:], violation="splitting raised in a fresh interpreter: %s" % pr.stderr.strip().splitlines()[-1:] )
            res[hs] = json.loads(lines[0][5:])
    vals = list(res.values())
    if any(v != vals[0] for v in vals):
        return dict(violation="fold assignment with rng=42 differs between interpreter sessions (PYTHONHASHSEED -> folds): %s" % res)
    return dict(outputs=None, violation=None)


def harnesses(tier, for_c02=False):
    from symx.runner import Harness
    B, D, P, U, T, Q = brewlib.setup()
    hs = []
    stubs = ["as C02; rng -> seeded generator = uninterpreted function of (seed, call index); unseeded/global draws are fresh arbitrary permutations",
             "model order: every permutation of the returned models (<= 3 folds)"]

    def add(name, cfg, rate=0.05):
        hs.append(Harness("brew[%s]" % name, cfg, sym, real="rerun", functions=[B.brew, D.OnDiskPsmDataset._split, B.make_train_sets, B._predict], bounds=cfg, stubs=stubs,
                          assumptions=["bit-level reproducibility of numpy PCG64 / scikit-learn / pandas sorting is trusted", "set-iteration-order independence of read_fasta: check C16"], sample_rate=rate,
                          validate_exc=False))
    for n, folds in ([(3, 2)] if tier == "quick" else [(4, 2), (4, 3)]):
        cfg = dict(n=n, folds=folds, filecol=True)
        hs.append(Harness("split[n=%d,folds=%d,file-name column in the spectrum key,fresh interpreter]" % (n, folds), cfg, sym_split_sessions, real="split_sessions",
                          functions=[D.OnDiskPsmDataset._split], bounds=cfg,
                          stubs=["zlib.crc32 -> uninterpreted injective function of the key", "builtin hash() of a tuple with a str member -> a different uninterpreted function per interpreter session (PYTHONHASHSEED salt); of numbers -> one fixed function"],
                          assumptions=["the seeded generator is an uninterpreted function of (seed, call index)"], sample_rate=0.03))
    hs.append(Harness("default_model[brew(rng=seed) builds its own model]", dict(n=4), sym_default_model, real="default_model", functions=[B.brew, B.PercolatorModel.__init__],
                      bounds=dict(runs=2), stubs=["numpy.random in mokapot.model -> shim (unseeded generator: arbitrary draws; seeded: function of (seed, index))", "construction intercepted after PercolatorModel.__init__"],
                      assumptions=["scikit-learn's KFold/GridSearchCV are deterministic functions of random_state"], sample_rate=1.0))
    # (a) protein grouping across interpreter sessions: identical maps, group names included, whatever the
    # iteration order of sets of strings - the C16 harness on several FASTA files
    from checks import c16
    for h in c16.harnesses(tier):
        if "files" in h.name:
            h.name = "fasta:" + h.name
            hs.append(h)
    hs.append(Harness("user_model[brew(model=Model(est) built without rng, rng=seed)]", dict(n=4), sym_user_model, real="user_model", functions=[B.brew],
                      bounds=dict(runs=2), stubs=["numpy.random in mokapot.model -> shim (unseeded generator: arbitrary draws; seeded: function of (seed, index))", "_fit_model intercepted: one draw from the fold model's generator"],
                      assumptions=["a copy of a generator continues the stream of the original"], sample_rate=1.0))
    if tier == "quick":
        add("n=4,folds=2,rerun same seed,task order", dict(sizes=[4], folds=2, mode="rerun"))
        add("n=4,folds=2,models fed back in any order", dict(sizes=[4], folds=2, mode="feedback"))
        add("n=4,folds=3,models fed back in any order", dict(sizes=[4], folds=3, mode="feedback"))
        add("n=5,folds=2,cap=2,rerun same seed", dict(sizes=[5], folds=2, mode="rerun", cap=2, fixed_hash_order=True))
        add("n=4,folds=3,ensemble,models fed back in any order", dict(sizes=[4], folds=3, mode="feedback", ensemble=True))
    else:
        add("n=5,folds=3,ensemble,models fed back in any order", dict(sizes=[5], folds=3, mode="feedback", ensemble=True), 0.01)
        add("n=5,folds=2,rerun same seed,task order", dict(sizes=[5], folds=2, mode="rerun"), 0.01)
        add("n=4,folds=2,cap,rerun same seed", dict(sizes=[4], folds=2, mode="rerun", cap=3), 0.01)
        add("n=5,folds=2,cap=2,rerun same seed", dict(sizes=[5], folds=2, mode="rerun", cap=2, fixed_hash_order=True), 0.01)
        add("n=6,folds=3,cap=3,rerun same seed", dict(sizes=[6], folds=3, mode="rerun", cap=3, fixed_hash_order=True), 0.01)
        add("n=5,folds=3,models fed back in any order", dict(sizes=[5], folds=3, mode="feedback"), 0.01)
        add("n=3+3,folds=2,models fed back in any order", dict(sizes=[3, 3], folds=2, mode="feedback"), 0.01)
    if for_c02:
        # not a C08 obligation (C08 speaks of the SAME seed): fold membership must not depend on the seed at all, or fold
        # models that are fed back (documented use) meet PSMs they were trained on - run by C02 and, as lemma L2, by C04
        hs = []
        # (n=5 with 3 folds did not finish within 700 s on a loaded machine: both tiers run the size that is known to)
        add("n=4,folds=2,models fed back into a run under another seed", dict(sizes=[4], folds=2, mode="feedback", other_seed=True), 0.05 if tier == "quick" else 0.02)
    return hs


BUDGET = {"quick": 900, "thorough": 3400}


# ------------------------------------------------------------------ concrete --
def real_rerun(cfg, inp):
    import tempfile
    import numpy as np
    import mokapot
    folds = int(inp["folds"])

    import mokapot.dataset as Dm
    seed_box = [42, 0]
    splits = []
    orig_split = Dm.OnDiskPsmDataset._split

    def rec_split(self, f_, r_):
        res = orig_split(self, f_, r_)
        splits.append([[int(i) for i in a] for a in res])
        return res

    def run(d, model, workers):
        dss = []
        for fid, rows in enumerate(inp["files"]):
            scan, mass = c02.realize_keys(rows, inp["hashes"][fid])
            p, df = brewlib.real_dataset(None, d, fid, dict(rows, scan=scan, mass=mass), "pm1")
            dss.append(mokapot.read_pin(p, max_workers=1)[0])
        _, models, scores, _ = mokapot.brew(dss, model=model, test_fdr=1.0, folds=folds, max_workers=workers, rng=seed_box[0] + seed_box[1], subset_max_train=cfg.get("cap"),
                                            ensemble=bool(cfg.get("ensemble")))
        return models, [np.asarray(s, dtype=float).tolist() for s in scores]
    Dm.OnDiskPsmDataset._split = rec_split
    try:
        v = dict(outputs=None, violation=None)
        for attempt in range(12 if cfg.get("_failed") else 1):  # an unseeded draw shows up only with some probability per pair of runs
            seed_box[0] = 42 + attempt // 2
            _InexactModel.SALT[0] = attempt
            v = _pair(cfg, inp, run, splits, folds, seed_box)
            if v.get("violation"):
                return v
        return v
    finally:
        Dm.OnDiskPsmDataset._split = orig_split


class _InexactModel(c02._RealModel):
    """scores that are not exactly representable, so that the order of a floating-point summation over the fold
    models can show (the scores of c02._RealModel are small dyadic numbers whose sums are exact)"""
    SALT = [0]

    def __deepcopy__(self, memo):
        m = _InexactModel(self.log, hasattr(self.estimator, "decision_function"))
        m.is_trained, m.fold, m.trained_on = self.is_trained, self.fold, self.trained_on
        return m

    def predict(self, psms):
        import math
        import numpy as np
        base = c02._RealModel.predict(self, psms)
        return np.array([math.sin(1.0 + 0.37 * (self.fold or 0) * (1 + j) + self.SALT[0]) for j in range(len(base))], dtype=float)


def _pair(cfg, inp, run, splits, folds, seed_box=None):
    import tempfile
    del splits[:]
    if seed_box is not None:
        seed_box[1] = 0
    with tempfile.TemporaryDirectory(prefix="verif_c08a_") as d1, tempfile.TemporaryDirectory(prefix="verif_c08b_") as d2:
        try:
            mk = _InexactModel if cfg.get("ensemble") else c02._RealModel
            modelsA, scoresA = run(d1, mk({}, False), 1)
        except Exception as ex:
            return dict(exception=repr(ex), violation=None)
        nA = len(splits)
        try:
            if inp["mode"] == "rerun":
                modelsB, scoresB = run(d2, mk({}, False), 3)
            else:
                order = inp.get("model_order") or list(range(folds))[::-1]
                if cfg.get("other_seed") and seed_box is not None:
                    seed_box[1] = 1000 + 7 * len(order)
                modelsB, scoresB = run(d2, [modelsA[i] for i in order], 1)
        except Exception as ex:
            return dict(exception=repr(ex), violation="second run with the same seed raised %r" % (ex,))
    if cfg.get("other_seed"):
        memb = lambda cs: [[sorted(f) for f in c] for c in cs]
        if memb(splits[:nA]) != memb(splits[nA:]):
            return dict(violation="models fed back under another seed: the folds hold other PSMs than in the run that trained the models (%s vs %s), so fold models score PSMs they were trained on" % (splits[:nA], splits[nA:]))
    elif splits[:nA] != splits[nA:]:
        return dict(violation="fold assignment differs between two runs with the same seed: %s vs %s" % (splits[:nA], splits[nA:]))
    if scoresA != scoresB:
        return dict(violation="%s: scores of the second run %s differ from the first run %s" % (inp["mode"], scoresB, scoresA))
    if inp["mode"] == "rerun" and sorted((m.fold, sorted(m.trained_on)) for m in modelsA) != sorted((m.fold, sorted(m.trained_on)) for m in modelsB):
        return dict(violation="training sets differ between two runs with the same seed")
    return dict(outputs=None, violation=None)


REAL = {"rerun": real_rerun, "split_sessions": real_split_sessions, "default_model": real_default_model, "user_model": real_user_model, "fasta": lambda cfg, inp: __import__("checks.c16", fromlist=["x"]).real_fasta(cfg, inp)}
