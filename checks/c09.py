"""C09 - a run's results depend only on its inputs, not on leftovers of earlier runs.

Real code executed symbolically: mokapot.confidence.assign_confidence (whole pipeline, as
C03) on a VFS whose destination directory already contains - each behind a symbolic presence
bit - the files an earlier run can leave behind; in the 'produced' harnesses the leftovers
are produced by running the same real code first with a fault injected at the k-th file-system
mutation (k symbolic). Plus the CLI verify block of mokapot.mokapot.main (is_valid_tsv ->
pin_to_valid_tsv into <pin>.tsv -> shutil.move) on tokenised text files."""
import os

from . import conflib, c03

ID = "C09"


def _stale_row(ctx, s, tag):
    import z3
    from symx.core import SNum
    return {"SpecId": "stale_%s" % tag, "Label": True, "ScanNr": SNum(z3.Int("stale_scan_%s" % tag)), "ExpMass": SNum(z3.Int("stale_mass_%s" % tag)),
            "Peptide": SNum(z3.Int("stale_pep_%s" % tag)), "Proteins": "stale_prot", "score": SNum(z3.Real("stale_score_%s" % tag))}


def sym_dirty(ctx, cfg):
    import z3
    from symx import vfs, sympd, symnp, core
    from symx.core import SNum, SBool, PathOutcome, Unsupported
    C, W, U, T, D, Q = conflib.setup()
    vfs.reset()
    n = cfg["n"]
    ps, s = conflib.make_collection(ctx, n, 0, "bool")
    big = n + 1
    C.CONFIDENCE_CHUNK_SIZE = int(ctx.fresh_int("confidence_chunk", 1, cfg.get("max_chunk", big))) if cfg.get("sym_chunk") else big
    U.MERGE_SORT_CHUNK_SIZE = big
    prefix = cfg.get("prefix")
    pre = (prefix + ".") if prefix else ""
    stale = []
    # leftovers of an earlier run, each present or not
    if cfg.get("stale_chunks"):
        if cfg.get("stale_indices"):
            # multi-digit indices: leftovers of a run with more chunks (file-name order differs from numeric order)
            ks = cfg["stale_indices"]
            k = ks[int(ctx.fresh_int("stale_chunk_index_choice", 0, len(ks) - 1))]
        else:
            k = int(ctx.fresh_int("stale_chunk_index", 0, n + 1))
        if bool(ctx.fresh_bool("stale_chunk_present")):
            r = _stale_row(ctx, s, "chunk")
            vfs.put("/vfs/out/%sscores_metadata_%d.pin" % (pre, k), sympd.DataFrame({c: [v] for c, v in r.items()}))
            stale.append("scores_metadata_%d" % k)
    if cfg.get("stale_levels"):
        for lvl in ("psms", "peptides"):
            if bool(ctx.fresh_bool("stale_%s_present" % lvl)):
                r = _stale_row(ctx, s, lvl)
                vfs.put("/vfs/out/%s.pin" % lvl, sympd.DataFrame({"PSMId": [r["SpecId"]], "Label": [True], "peptide": [r["Peptide"]], "proteinIds": ["stale_prot"], "score": [r["score"]]}))
                stale.append(lvl)
    if cfg.get("stale_results"):
        for lvl in ("psms", "peptides"):
            if bool(ctx.fresh_bool("stale_result_%s_present" % lvl)):
                r = _stale_row(ctx, s, "res" + lvl)
                vfs.put("/vfs/out/%stargets.%s" % (pre, lvl), sympd.DataFrame({"PSMId": [r["SpecId"]], "peptide": [r["Peptide"]], "score": [r["score"]], "q-value": [0.5], "posterior_error_prob": [0.5], "proteinIds": ["stale_prot"]}))
                stale.append("targets." + lvl)
    before = set(vfs.listing())
    scores = [symnp.SArray([SNum(z) for z in s["score"]], symnp.float64)]
    inputs = dict(collections=conflib.collection_inputs([s]), confidence_chunk=C.CONFIDENCE_CHUNK_SIZE, prefix=prefix,
                  stale={p: vfs.get(p) for p in sorted(before) if p.startswith("/vfs/out/")})
    try:
        c03.run_confidence(ctx, cfg, C, [s], [ps], scores, None, True, True, True, [prefix])
    except Unsupported:
        raise
    except Exception as ex:
        import traceback
        tb = traceback.extract_tb(ex.__traceback__)[-1]
        return PathOutcome([], inputs, None, "exc", note="%s:%s @%s:%d" % (type(ex).__name__, str(ex)[:60], os.path.basename(tb.filename), tb.lineno))
    # results equal the function of the inputs alone (the C03 oracle does not know about the leftovers)
    props = c03.output_props(s, prefix, True, True, True)
    made = set(vfs.listing()) - before
    from checks.c15 import _is_result_file
    left = [p for p in made if p.startswith("/vfs/out/") and not _is_result_file(p)]  # anything new that is not a result file
    props.append(("no_intermediate_file_of_this_run_remains: %s" % sorted(left), z3.BoolVal(not left)))
    own = ["/vfs/out/%sscores_metadata_%d.pin" % (pre, i) for i in range((n + C.CONFIDENCE_CHUNK_SIZE - 1) // C.CONFIDENCE_CHUNK_SIZE)]
    props.append(("own_temporary_files_removed", z3.BoolVal(not any(vfs.get(p) is not None for p in own))))
    return PathOutcome(props, inputs, None)


def sym_dirty2(ctx, cfg):
    """Two collections with their own prefixes; leftovers of an earlier run for either prefix."""
    import z3
    from symx import vfs, sympd, symnp, core
    from symx.core import SNum, PathOutcome, Unsupported
    C, W, U, T, D, Q = conflib.setup()
    vfs.reset()
    n = cfg["n"]
    pss, syms = [], []
    for cid in range(2):
        ps, s = conflib.make_collection(ctx, n, cid, "bool")
        pss.append(ps)
        syms.append(s)
    C.CONFIDENCE_CHUNK_SIZE = U.MERGE_SORT_CHUNK_SIZE = n + 1
    prefixes = ["runA", "runB"]
    for pre in prefixes:
        present = bool(ctx.fresh_bool("stale_results_of_%s_present" % pre))  # one bit per prefix: all four result files of that prefix
        for lvl in ("psms", "peptides"):
            for kind in ("targets", "decoys"):
                if present:
                    r = _stale_row(ctx, syms[0], "%s%s%s" % (pre, kind, lvl))
                    vfs.put("/vfs/out/%s.%s.%s" % (pre, kind, lvl), sympd.DataFrame({"PSMId": [r["SpecId"]], "peptide": [r["Peptide"]], "score": [r["score"]], "q-value": [0.5],
                                                                                   "posterior_error_prob": [0.5], "proteinIds": ["stale_prot"]}))
    before = set(vfs.listing())
    inputs = dict(collections=conflib.collection_inputs(syms), prefixes=prefixes, stale={p: vfs.get(p) for p in sorted(before) if p.startswith("/vfs/out/")})
    try:
        c03.run_confidence(ctx, cfg, C, syms, pss, [symnp.SArray([SNum(z) for z in s["score"]], symnp.float64) for s in syms], None, True, True, True, prefixes)
    except Unsupported:
        raise
    except Exception as ex:
        import traceback
        tb = traceback.extract_tb(ex.__traceback__)[-1]
        return PathOutcome([], inputs, None, "exc", note="%s:%s @%s:%d" % (type(ex).__name__, str(ex)[:60], os.path.basename(tb.filename), tb.lineno))
    props = []
    for s, pre in zip(syms, prefixes):
        props += [("%s_%s" % (pre, n_), p_) for n_, p_ in c03.output_props(s, pre, True, True, True)]
    made = set(vfs.listing()) - before
    from checks.c15 import _is_result_file
    left = [p for p in made if p.startswith("/vfs/out/") and not _is_result_file(p)]  # anything new that is not a result file
    props.append(("no_intermediate_file_of_this_run_remains: %s" % sorted(left), z3.BoolVal(not left)))
    return PathOutcome(props, inputs, None)


# ---- leftovers PRODUCED by an interrupted earlier run --------------------------------
def sym_produced(ctx, cfg):
    import z3
    from symx import vfs, sympd, symnp, core
    from symx.core import SNum, SBool, PathOutcome, Unsupported
    C, W, U, T, D, Q = conflib.setup()
    fs = vfs.reset()
    n0, n = cfg["n_first"], cfg["n"]
    big = max(n0, n) + 1
    U.MERGE_SORT_CHUNK_SIZE = big
    # earlier run: other inputs, other chunking, interrupted at the k-th file-system mutation
    ps0, s0 = conflib.make_collection(ctx, n0, 0, "bool", tag="old")
    C.CONFIDENCE_CHUNK_SIZE = cfg.get("first_chunk", 1)
    k = int(ctx.fresh_int("crash_at_mutation", 1, cfg["max_crash"]))
    fs.crash_at = fs.ops + k
    crashed = False
    try:
        c03.run_confidence(ctx, cfg, C, [s0], [ps0], [symnp.SArray([SNum(z) for z in s0["score"]], symnp.float64)], None, True, True, True, [None])
    except vfs.Crash:
        crashed = True
    except Unsupported:
        raise
    except Exception as ex:
        return PathOutcome([], None, None, "legit_exc", note="first run: %s" % type(ex).__name__)
    fs.crash_at = None
    ctx.notes.append(("first_run_crashed", crashed, "after", k))
    # the observed run
    ps, s = conflib.make_collection(ctx, n, 0, "bool", tag="new")
    C.CONFIDENCE_CHUNK_SIZE = big
    before = set(vfs.listing())
    inputs = dict(first=conflib.collection_inputs([s0]), collections=conflib.collection_inputs([s]), crash_at=k, first_chunk=cfg.get("first_chunk", 1))
    try:
        c03.run_confidence(ctx, cfg, C, [s], [ps], [symnp.SArray([SNum(z) for z in s["score"]], symnp.float64)], None, True, True, True, [None])
    except Unsupported:
        raise
    except Exception as ex:
        import traceback
        tb = traceback.extract_tb(ex.__traceback__)[-1]
        return PathOutcome([], inputs, None, "exc", note="%s:%s @%s:%d" % (type(ex).__name__, str(ex)[:60], os.path.basename(tb.filename), tb.lineno))
    props = c03.output_props(s, None, True, True, True)
    return PathOutcome(props, inputs, None, note="crashed" if crashed else "completed")


# ---- CLI verify block ------------------------------------------------------------------
class _TextFile:
    def __init__(self, path, mode):
        from symx import vfs
        self.path, self.mode = str(path), mode
        fs = vfs.FS.cur
        if "w" in mode:
            fs.mutate("truncate", path)
            fs.files[self.path] = []
        elif "a" in mode:
            fs.files.setdefault(self.path, [])
        elif self.path not in fs.files:
            raise FileNotFoundError(self.path)

    def __enter__(self):
        return self

    def __exit__(self, *a):
        return False

    def __iter__(self):
        return self

    def __next__(self):
        from symx import vfs
        lines = vfs.FS.cur.files[self.path]
        self.pos = getattr(self, "pos", 0)
        if self.pos >= len(lines):
            raise StopIteration
        self.pos += 1
        return lines[self.pos - 1]

    def write(self, s):
        from symx import vfs
        vfs.FS.cur.mutate("append", self.path)
        vfs.FS.cur.files[self.path].append(s)


class _Stop(BaseException):
    pass


def sym_verify(ctx, cfg):
    import z3
    from symx import vfs, items, world, core
    from symx.items import TStr
    from symx.core import SBool, PathOutcome, Unsupported
    M = world.mod("mokapot.mokapot")
    vfs.reset()
    items.reset()
    nf, nr = cfg["nf"], cfg["nr"]
    ncol = nf + 2
    header = [items.atom(name="h%d" % c, equals={"Proteins": False}, startswith={"DefaultDirection": False}) for c in range(ncol - 1)] + [TStr("Proteins")]
    TAB = TStr("\t")
    lines = [TAB.join(header) + "\n"]
    ragged = False
    for r in range(nr):
        k = int(ctx.fresh_int("nprot%d" % r, 1, 2))
        ragged = ragged or k > 1
        fields = [items.atom(name="r%dc%d" % (r, c), startswith={"DefaultDirection": False}) for c in range(ncol - 1)]
        prots = [items.atom(name="r%dp%d" % (r, j), startswith={"DefaultDirection": False}) for j in range(k)]
        lines.append(TAB.join(fields + prots) + "\n")
    pin = "/vfs/in/a.pin"
    vfs.FS.cur.files[pin] = list(lines)
    exp = [str.__str__(lines[0])]
    for l in lines[1:]:
        f = str.__str__(l).rstrip("\n").split("\t")
        exp.append("\t".join(f[:ncol - 1] + [":".join(f[ncol - 1:])]) + "\n")
    stale = bool(ctx.fresh_bool("stale_tsv_present"))
    if stale:
        # temporary copy left by an earlier, interrupted conversion (of any content)
        vfs.FS.cur.files[pin + ".tsv"] = [TAB.join([items.atom(name="old%d" % c, startswith={"DefaultDirection": False}) for c in range(ncol)]) + "\n"]
    inputs = dict(text=items.SymText(TStr("").join(lines), lambda i, t, m: t.get("name", "a%d" % i)), stale_tsv=stale, ncol=ncol)

    class Cfg:
        verbosity, suppress_warnings, verify_pin, seed, max_workers = 0, True, True, 1, 1
        psm_files = [pin]

        def __init__(self, parser=None, main_args=None):
            self.parser = None

    def move(src, dst):
        vfs.FS.cur.mutate("move", src)
        vfs.FS.cur.files[str(dst)] = vfs.FS.cur.files.pop(str(src))

    class Sh:
        pass
    Sh.move = staticmethod(move)

    def stop(*a, **k):
        raise _Stop()
    world.rebind(M, Config=Cfg, open=lambda p, mode="r": _TextFile(p, mode), shutil=Sh, read_pin=stop)
    import logging
    old = logging.basicConfig
    logging.basicConfig = lambda **k: None
    try:
        M.main([])
    except _Stop:
        pass
    except Unsupported:
        raise
    except Exception as ex:
        return PathOutcome([], inputs, None, "exc", note=type(ex).__name__ + ":" + str(ex)[:80])
    finally:
        logging.basicConfig = old
    got = [str.__str__(x) for x in vfs.FS.cur.files.get(pin, [])]
    # writes are per line (header + newline etc.): compare the concatenated text
    props = [("input_file_is_the_conversion_of_the_input_alone", z3.BoolVal("".join(got) == ("".join(exp) if ragged else "".join(str.__str__(l) for l in lines))))]
    return PathOutcome(props, inputs, None)


def harnesses(tier):
    from symx.runner import Harness
    from symx import world
    C, W, U, T, D, Q = conflib.setup()
    M = world.mod("mokapot.mokapot")
    P2 = world.mod("mokapot.parsers.pin_to_tsv")
    hs = []
    funcs = [C.assign_confidence, C.create_sorted_file_iterator, C._save_sorted_metadata_chunks, U.merge_sort, C.LinearConfidence._assign_confidence, W.write_confidences,
             T.CSVFileWriter.initialize, T.CSVFileWriter.append_data]
    stubs = ["files -> VFS; every write/append/unlink is a counted mutation (fault injection point)", "as C03: q-values by the C01 formula, PEP tagging symbols"]

    def add(name, cfg, fn=sym_dirty, real="dirty", rate=0.05):
        hs.append(Harness(name, cfg, fn, real=real, functions=funcs, bounds=cfg, stubs=stubs,
                          assumptions=["the observed run itself completes (no fault injected into it)", "leftovers are well-formed tables with the columns the earlier run would have written"], sample_rate=rate))
    if tier == "quick":
        add("dirty[n=2,stale chunk file]", dict(n=2, stale_chunks=True, sym_chunk=True))
        add("dirty[n=2,stale level+result files]", dict(n=2, stale_levels=True, stale_results=True))
        add("dirty[n=2,prefix,stale chunk file]", dict(n=2, stale_chunks=True, prefix="a"))
        add("dirty[n=3,chunk 1..2,stale chunk file with index 3/9/10/11/20/100]", dict(n=3, stale_chunks=True, stale_indices=[3, 9, 10, 11, 20, 100], sym_chunk=True, max_chunk=2))
        add("dirty[2 collections with prefixes,n=2,stale result files of either prefix]", dict(n=2), sym_dirty2, "dirty2", 0.02)
        add("produced[first n=2 chunk 1, crash<=10, then n=2]", dict(n_first=2, n=2, first_chunk=1, max_crash=16), sym_produced, "produced", 0.1)
    else:
        add("dirty[n=3,stale chunk file]", dict(n=3, stale_chunks=True, sym_chunk=True), rate=0.01)
        add("dirty[n=3,all leftovers]", dict(n=3, stale_chunks=True, stale_levels=True, stale_results=True), rate=0.01)
        add("dirty[n=2,prefix,all leftovers]", dict(n=2, stale_chunks=True, stale_levels=True, stale_results=True, prefix="a"), rate=0.01)
        add("dirty[n=3,chunk 1..2,stale chunk file with index 3/9/10/11/20/100]", dict(n=3, stale_chunks=True, stale_indices=[3, 9, 10, 11, 20, 100], sym_chunk=True, max_chunk=2), rate=0.01)
        add("dirty[2 collections with prefixes,n=2,stale result files of either prefix]", dict(n=2), sym_dirty2, "dirty2", 0.01)
        add("produced[first n=3 chunk 1, crash<=16, then n=2]", dict(n_first=3, n=2, first_chunk=1, max_crash=16), sym_produced, "produced", 0.02)
        add("produced[first n=2 chunk 2, crash<=12, then n=3]", dict(n_first=2, n=3, first_chunk=2, max_crash=12), sym_produced, "produced", 0.02)
    # the rollup tool in a directory that still holds the results of an earlier rollup over other inputs
    from checks import c03 as _c03
    R = world.mod("mokapot.brew_rollup")
    for sizes in ([[(1, 1)], [(2, 1)]] if tier == "quick" else [[(2, 1)], [(1, 1), (1, 1)], [(2, 2)]]):
        cfg = dict(sizes=[list(x) for x in sizes], level="peptide", same_dir=True, stale_outputs=True)
        hs.append(Harness("rollup_with_own_earlier_outputs[%s,level=peptide,source = destination]" % sizes, cfg, _c03.sym_rollup, real="rollup", functions=[R.do_rollup], bounds=cfg,
                          stubs=stubs + ["as C03 rollup"], assumptions=["earlier outputs carry the tool's own file root ('rollup.')"], sample_rate=0.2))
    # a run WITH a protein level: no intermediate file (level files include the protein level's) may remain
    from checks import c15
    for cfg in ([dict(n=2, pairs=1, notation_offset=1)] if tier == "quick" else [dict(n=3, pairs=1, notation_offset=1), dict(n=2, pairs=2, notation_offset=0)]):
        hs.append(Harness("confidence_with_proteins[n=%d,pairs=%d]" % (cfg["n"], cfg["pairs"]), cfg, c15.sym_confidence_proteins, real="conf_proteins", functions=funcs,
                          bounds=cfg, stubs=stubs + ["as C15 confidence_proteins"], assumptions=["a clean destination directory; everything created there that is not a targets.*/decoys.* result file counts as an intermediate"], sample_rate=0.05))
    for nf, nr in ((1, 1), (1, 2)) if tier == "quick" else ((1, 2), (2, 2), (2, 3)):
        hs.append(Harness("verify_block[features=%d,rows=%d]" % (nf, nr), dict(nf=nf, nr=nr), sym_verify, real="verify", functions=[M.main, P2.is_valid_tsv, P2.pin_to_valid_tsv],
                          bounds=dict(features=nf, rows=nr), stubs=["open/shutil.move -> VFS text files", "Config -> verify_pin=True, one PIN file; main() is stopped at read_pin"],
                          assumptions=["fields are opaque atoms without separators"], sample_rate=1.0))
    return hs


BUDGET = {"quick": 900, "thorough": 3400}


# ------------------------------------------------------------------ concrete --
def _write_table(path, t):
    import pandas as pd
    df = pd.DataFrame({c: t["data"][c] for c in t["columns"]}, columns=t["columns"])
    for c in df.columns:
        if c == "Peptide" or c == "peptide":
            df[c] = ["PEP%d" % int(x) for x in df[c]]
    df.to_csv(path, sep="\t", index=False)


def _run_conf(d, coll, chunk, prefix, crash_at=None):
    """real assign_confidence on one collection; optional fault at the k-th write/unlink"""
    from pathlib import Path
    import numpy as np
    import mokapot
    C = __import__("sys").modules["mokapot.confidence"]
    p, df = c03.real_collection(os.path.join(d, "in"), 0, coll, "bool", ".pin")
    ps = mokapot.read_pin(p, max_workers=1)[0]
    sc = [float(x) for x in coll["scores"]]
    old = (C.CONFIDENCE_CHUNK_SIZE, C.peps_from_scores)
    C.CONFIDENCE_CHUNK_SIZE = int(chunk)
    C.peps_from_scores = __import__("checks.conflib", fromlist=["x"]).real_pep_stub
    import pandas as pd
    orig_to_csv, orig_unlink, orig_osunlink = pd.DataFrame.to_csv, Path.unlink, os.unlink
    count = [0]

    class Crash(BaseException):
        pass

    def tick():
        count[0] += 1
        if crash_at is not None and count[0] == crash_at:
            raise Crash()

    def to_csv(self, *a, **k):
        tick()
        return orig_to_csv(self, *a, **k)

    def unlink(self, *a, **k):
        tick()
        return orig_unlink(self, *a, **k)

    def osunlink(p_, *a, **k):
        tick()
        return orig_osunlink(p_, *a, **k)
    if crash_at is not None:
        pd.DataFrame.to_csv, Path.unlink, os.unlink = to_csv, unlink, osunlink
    try:
        mokapot.assign_confidence([ps], max_workers=1, scores=[np.array(sc, dtype=float)], descs=[True], dest_dir=Path(d) / "out", prefixes=[prefix], decoys=True)
    except Crash:
        pass
    finally:
        pd.DataFrame.to_csv, Path.unlink, os.unlink = orig_to_csv, orig_unlink, orig_osunlink
        C.CONFIDENCE_CHUNK_SIZE, C.peps_from_scores = old
    return df, sc


def real_dirty(cfg, inp):
    import tempfile
    with tempfile.TemporaryDirectory(prefix="verif_c09_") as d:
        os.makedirs(os.path.join(d, "in"))
        out = os.path.join(d, "out")
        os.makedirs(out)
        for path, t in inp["stale"].items():
            _write_table(os.path.join(out, os.path.basename(path)), t)
        before = set(os.listdir(out))
        try:
            df, sc = _run_conf(d, inp["collections"][0], inp["confidence_chunk"], inp["prefix"])
        except Exception as ex:
            return dict(exception=repr(ex), violation="assign_confidence raised %r in a directory holding %s" % (ex, sorted(before)))
        v = c03.check_outputs(df, sc, out, inp["prefix"], True, True, True, False)
        if v:
            return dict(violation="with leftovers %s: %s" % (sorted(before), v))
        made = set(os.listdir(out)) - before
        from checks.c15 import _is_result_file
        left = sorted(f for f in made if not _is_result_file(f))  # anything new that is not a result file
        if left:
            return dict(violation="intermediate files of this run remain: %s" % left)
    return dict(outputs=None, violation=None)


def real_produced(cfg, inp):
    import tempfile
    with tempfile.TemporaryDirectory(prefix="verif_c09_") as d:
        os.makedirs(os.path.join(d, "in"))
        os.makedirs(os.path.join(d, "out"))
        try:
            _run_conf(d, inp["first"][0], inp["first_chunk"], None, crash_at=int(inp["crash_at"]))
        except Exception as ex:
            return dict(skip=True)
        debris = sorted(os.listdir(os.path.join(d, "out")))
        try:
            df, sc = _run_conf(d, inp["collections"][0], len(inp["collections"][0]["scan"]) + 1, None)
        except Exception as ex:
            return dict(exception=repr(ex), violation="second run raised %r after an earlier run interrupted at mutation %s left %s" % (ex, inp["crash_at"], debris))
        v = c03.check_outputs(df, sc, os.path.join(d, "out"), None, True, True, True, False)
        if v:
            return dict(violation="after an earlier run interrupted at mutation %s (debris %s): %s" % (inp["crash_at"], debris, v))
    return dict(outputs=None, violation=None)


def real_verify(cfg, inp):
    import tempfile, sys, io
    import mokapot.mokapot as M
    M = sys.modules["mokapot.mokapot"]
    text = inp["text"]
    with tempfile.TemporaryDirectory(prefix="verif_c09v_") as d:
        pin = os.path.join(d, "a.pin")
        open(pin, "w").write(text)
        ncol = int(inp["ncol"])
        if inp["stale_tsv"]:
            open(pin + ".tsv", "w").write("\t".join("old%d" % c for c in range(ncol)) + "\n")
        lines = text.splitlines()
        ragged = any(len(l.split("\t")) != ncol for l in lines[1:])
        exp = [lines[0]] + ["\t".join(l.split("\t")[:ncol - 1] + [":".join(l.split("\t")[ncol - 1:])]) for l in lines[1:]]
        exp_text = "".join(x + "\n" for x in exp) if ragged else text

        class Stop(BaseException):
            pass

        def stop(*a, **k):
            raise Stop()
        old = M.read_pin
        M.read_pin = stop
        try:
            M.main([pin, "-v", "0", "--dest_dir", d])
        except Stop:
            pass
        except SystemExit as ex:
            return dict(skip=True)
        except Exception as ex:
            return dict(exception=repr(ex), violation="main raised %r" % (ex,))
        finally:
            M.read_pin = old
        got = open(pin).read()
    if got != exp_text:
        return dict(violation="input file after the verify step is %r, expected %r (stale .tsv present: %s)" % (got, exp_text, inp["stale_tsv"]))
    return dict(outputs=None, violation=None)


def real_dirty2(cfg, inp):
    import tempfile
    from pathlib import Path
    import numpy as np
    import mokapot
    C = __import__("sys").modules["mokapot.confidence"]
    with tempfile.TemporaryDirectory(prefix="verif_c09_") as d:
        os.makedirs(os.path.join(d, "in"))
        out = os.path.join(d, "out")
        os.makedirs(out)
        for path, t in inp["stale"].items():
            _write_table(os.path.join(out, os.path.basename(path)), t)
        before = set(os.listdir(out))
        pss, dfs, scs = [], [], []
        for cid, coll in enumerate(inp["collections"]):
            p, df = c03.real_collection(os.path.join(d, "in"), cid, coll, "bool", ".pin")
            pss.append(mokapot.read_pin(p, max_workers=1)[0])
            dfs.append(df)
            scs.append([float(x) for x in coll["scores"]])
        old = C.peps_from_scores
        C.peps_from_scores = __import__("checks.conflib", fromlist=["x"]).real_pep_stub
        try:
            mokapot.assign_confidence(pss, max_workers=1, scores=[np.array(x, dtype=float) for x in scs], descs=[True, True], dest_dir=Path(out), prefixes=inp["prefixes"], decoys=True)
        except Exception as ex:
            return dict(exception=repr(ex), violation="assign_confidence raised %r in a directory holding %s" % (ex, sorted(before)))
        finally:
            C.peps_from_scores = old
        for cid, (df, sc) in enumerate(zip(dfs, scs)):
            v = c03.check_outputs(df, sc, out, inp["prefixes"][cid], True, True, True, False)
            if v:
                return dict(violation="collection %s with leftovers %s: %s" % (inp["prefixes"][cid], sorted(before), v))
    return dict(outputs=None, violation=None)


def _c15_real(cfg, inp):
    from checks import c15
    return c15.real_conf_proteins(cfg, inp)


REAL = {"dirty2": real_dirty2, "dirty": real_dirty, "produced": real_produced, "verify": real_verify, "conf_proteins": _c15_real, "rollup": lambda cfg, inp: __import__("checks.c03", fromlist=["x"]).real_rollup(cfg, inp)}
