"""C10 - every well-formed PIN/Parquet PSM table parses into a faithful dataset.

Kernels, each on the real code:
 K1 create_chunks_with_identifier + utils.create_chunks with a feature list of SYMBOLIC
    length n <= 60, k identifier columns, symbolic chunk size (paths split only on the
    number of chunks);
 K2 find_column family (symbolic choice of letter case, order, duplicates);
 K3 utils.convert_targets_column (symbolic labels, three encodings);
 K4 drop_missing_values_and_fill_spectra_dataframe (symbolic NaN bit per cell);
 K5 read_percolator composed on a VFS table (text and Parquet suffix)."""
import itertools
import os

ID = "C10"


def setup():
    from symx import world, symnp, sympd, vfs, stubs, seglist
    world.import_mokapot_patched()
    P = world.mod("mokapot.parsers.pin")
    U = world.mod("mokapot.utils")
    H = world.mod("mokapot.parsers.helpers")
    D = world.mod("mokapot.dataset")
    T = world.mod("mokapot.tabular_data")
    world.rebind(U, np=symnp, pd=sympd, len=seglist.slen, range=seglist.srange)
    world.rebind(P, pd=sympd, len=seglist.slen, Parallel=stubs.SParallel, delayed=stubs.sdelayed)
    world.rebind(D, np=symnp, pd=sympd)
    world.rebind(T, np=symnp, pd=sympd, pq=vfs.pq_stub, pa=vfs.pa_stub)
    return P, U, H, D, T


# ----------------------------------------------------------------------- K1 --
def sym_chunks(ctx, cfg):
    import z3
    from symx import core, seglist
    from symx.core import SNum, PathOutcome, Unsupported
    from symx.seglist import SegList
    P, U, H, D, T = setup()
    k = cfg["k"]
    nlo, nhi, clo, chi = cfg["n"][0], cfg["n"][1], cfg["c"][0], cfg["c"][1]
    zn, zc = z3.Int("n_features"), z3.Int("chunk_size")
    ctx.assume(z3.And(zn >= nlo, zn <= nhi, zc >= clo, zc <= chi))
    seglist.MAXCHUNKS[0] = cfg["maxchunks"]
    # bound stated in the evidence: at most maxchunks chunks
    ctx.assume(zn + k <= (cfg["maxchunks"] - 1) * zc)
    n, c = SNum(zn, (nlo, nhi)), SNum(zc, (clo, chi))
    data, ident = SegList([("F", 0, n)]), SegList([("I", 0, k)])
    inputs = dict(n_features=n, chunk_size=c, k=k)
    try:
        chunks = P.create_chunks_with_identifier(data, ident, c)
    except Unsupported:
        raise
    except Exception as ex:
        return PathOutcome([], inputs, None, "exc", note=type(ex).__name__ + ":" + str(ex)[:80])
    props = []
    together = []
    fpos = 0
    for ci, ch in enumerate(chunks):
        itot = ch.count("I")
        ftot = ch.count("F")
        together.append(core._z(itot == k))
        # size: no chunk longer than the chunk size, except a chunk holding only the identifier columns
        props.append(("chunk%d_size" % ci, z3.Or(core._z(itot + ftot <= c), z3.And(core._z(ftot == 0), core._z(itot == k)))))
        props.append(("chunk%d_nonempty" % ci, core._z(itot + ftot >= 1)))
        for tag, lo, hi in ch.segs:
            if tag == "F":
                ln = core.ite(hi > lo, hi - lo, 0)
                # features are consecutive, each exactly once
                props.append(("chunk%d_features_consecutive" % ci, z3.Implies(core._z(ln > 0), core._z(lo == fpos))))
                fpos = fpos + ln
    props.append(("identifier_columns_together", z3.Or(together) if together else z3.BoolVal(False)))
    props.append(("every_feature_exactly_once", core._z(fpos == n)))
    return PathOutcome(props, inputs, None)


# ----------------------------------------------------------------------- K2 --
RESERVED = ["specid", "peptide", "proteins", "label", "scannr"]
CASINGS = [str.lower, str.upper, str.capitalize, lambda s: s[:1].lower() + s[1:].upper()]


def sym_find(ctx, cfg):
    import z3
    from symx.core import PathOutcome, Unsupported
    P, U, H, D, T = setup()
    names = cfg["names"]
    cols = []
    for nm in names:
        ci = int(ctx.fresh_int("casing", 0, len(CASINGS) - 1))
        cols.append(CASINGS[ci](nm))
    # features whose names merely START WITH, END WITH or CONTAIN a reserved name (exact match is asked for)
    extra = ["feat1", "Feat2", "PeptideLength", "xLabel", "myScanNrOffset", "Proteinsx"]
    pos = int(ctx.fresh_int("rotation", 0, len(cols) + len(extra) - 1))
    allc = cols + extra
    allc = allc[pos:] + allc[:pos]
    dup = bool(ctx.fresh_bool("duplicate"))
    if dup:
        allc = allc + [names[0].swapcase() if names[0].swapcase() not in allc else names[0].upper()]
    inputs = dict(columns=allc)
    props = []
    for target in cfg["search"]:
        matches = [c for c in allc if c.lower() == target.lower()]
        try:
            got = H.find_required_column(target, allc)
            props.append(("required[%s]" % target, z3.BoolVal(len(matches) == 1 and got == matches[0])))
        except ValueError:
            props.append(("required_error[%s]" % target, z3.BoolVal(len(matches) != 1)))
        try:
            got = H.find_optional_column(None, allc, target)
            props.append(("optional[%s]" % target, z3.BoolVal(len(matches) <= 1 and got == (matches[0] if matches else None))))
        except ValueError:
            props.append(("optional_error[%s]" % target, z3.BoolVal(len(matches) > 1)))
        props.append(("find_columns[%s]" % target, z3.BoolVal(H.find_columns(target, allc) == matches)))
        try:
            got = H.find_optional_column(target, allc, "zzz")
            props.append(("explicit[%s]" % target, z3.BoolVal(allc.count(target) == 1 and got == target)))
        except ValueError:
            props.append(("explicit_error[%s]" % target, z3.BoolVal(allc.count(target) != 1)))
    return PathOutcome(props, inputs, None)


# ----------------------------------------------------------------------- K3 --
def sym_targets(ctx, cfg):
    import z3
    from symx import sympd, core
    from symx.core import SNum, SBool, PathOutcome, Unsupported
    P, U, H, D, T = setup()
    n, enc = cfg["n"], cfg["encoding"]
    if enc == "bool":
        zt = [z3.Bool("l%d" % i) for i in range(n)]
        col = [SBool(z) for z in zt]
        is_t = zt
        bad = z3.BoolVal(False)
    else:
        zt = [z3.Int("l%d" % i) for i in range(n)]
        for z in zt:
            ctx.assume(z3.And(z >= -3, z <= 3))
        col = [SNum(z, (-3, 3)) for z in zt]
        is_t = [z == 1 for z in zt]
        bad = z3.Or([z3.Or(z < -1, z > 1) for z in zt])
    df = sympd.DataFrame({"SpecId": list(range(n)), "Label": col})
    inputs = dict(labels=list(col), encoding=enc)
    try:
        out = U.convert_targets_column(df, "Label")
    except Unsupported:
        raise
    except ValueError as ex:
        if "contains values not in {-1, 0, 1}" in str(ex):
            return PathOutcome([("rejected_only_out_of_range", bad)], inputs, None, note="ValueError(out of range)")
        return PathOutcome([], inputs, None, "exc", note="ValueError:" + str(ex)[:80])
    except Exception as ex:
        return PathOutcome([], inputs, None, "exc", note=type(ex).__name__ + ":" + str(ex)[:80])
    props = [("accepted_only_in_range", z3.Not(bad)), ("rows_kept", z3.BoolVal(len(out) == n))]
    got = out["Label"]._v
    for i in range(n):
        props.append(("target%d" % i, core.zbool(got[i]) == is_t[i] if isinstance(got[i], (bool, core.SBool)) else z3.BoolVal(False)))
    return PathOutcome(props, inputs, dict(targets=list(got)))


# ------------------------------------------------------------------ K4 / K5 --
ARGNAME = {"expmass": "expmass_column", "calcmass": "calcmass_column", "ret_time": "rt_column", "filename": "filename_column"}


def _naming(cfg):
    """-> (case, kwargs): how a reserved / optional column is spelt in the file, and the explicit *_column arguments
    for the optional columns that carry a user-chosen name (cfg['named'])"""
    case0 = CASINGS[cfg.get("casing", 2)]
    named = cfg.get("named") or {}
    return (lambda c: named.get(c, case0(c))), {ARGNAME[k]: v for k, v in named.items()}


def _pin_table(ctx, cfg):
    """symbolic PIN table: reserved columns (case chosen per harness), optional columns,
    nf features with a symbolic NaN bit per cell, labels in the given encoding."""
    import z3
    from symx import sympd, core
    from symx.core import SNum, SBool
    n, nf, enc = cfg["rows"], cfg["features"], cfg["encoding"]
    case, _ = _naming(cfg)
    cols = {}
    cols[case("specid")] = list(range(n))
    if enc == "bool":
        zl = [z3.Bool("lab%d" % i) for i in range(n)]
        lab = [SBool(z) for z in zl]
        tg = zl
    else:
        zl = [z3.Bool("lab%d" % i) for i in range(n)]
        lab = [core.ite(SBool(z), 1, -1 if enc == "pm1" else 0) for z in zl]
        tg = zl
    cols[case("label")] = lab
    cols[case("scannr")] = [SNum(z3.Int("scan%d" % i)) for i in range(n)]
    opt = cfg.get("optional", [])
    if "expmass" in opt:
        cols[case("expmass")] = [SNum(z3.Real("mass%d" % i)) for i in range(n)]
    if "ret_time" in opt:
        cols[case("ret_time")] = [SNum(z3.Real("rt%d" % i)) for i in range(n)]
    if "filename" in opt:
        cols[case("filename")] = ["run%d.mzML" % (i % 2) for i in range(n)]
    if "calcmass" in opt:
        cols[case("calcmass")] = [SNum(z3.Real("cm%d" % i)) for i in range(n)]
    feats, nabits = [], {}
    for j in range(nf):
        name = (["PeptideLength", "LabelScore", "feat%d" % j][j] if j < 2 else "feat%d" % j) if cfg.get("tricky_feature_names") else "feat%d" % j
        cells = []
        for i in range(n):
            b = z3.Bool("na_%d_%d" % (i, j))
            nabits[(i, j)] = b
            cells.append(sympd.MaybeNA(SBool(b), SNum(z3.Real("x_%d_%d" % (i, j)))))
        cols[name] = cells
        feats.append(name)
    if cfg.get("charge_others") is not None:
        # a designated charge column plus k further columns whose names start with "charge" (one-hot style)
        cols["Charge"] = [2 + (i % 2) for i in range(n)]
        for k in range(cfg["charge_others"]):
            cols["Charge%d" % (k + 2)] = [float((i + k) % 2) for i in range(n)]
    cols[case("peptide")] = ["PEP%d" % i for i in range(n)]
    cols[case("proteins")] = ["PROT%d" % i for i in range(n)]
    order = list(cols)
    if cfg.get("feature_last") and feats:
        # "any number and order of feature columns": the last feature stands AFTER the protein column
        order.remove(feats[-1])
        order.append(feats[-1])
    rot = cfg.get("rotate", 0) % len(order)
    order = order[rot:] + order[:rot]
    df = sympd.DataFrame({c: cols[c] for c in order})
    return df, feats, nabits, tg, case


def sym_nascan(ctx, cfg):
    import z3
    from symx import sympd, vfs, core
    from symx.core import PathOutcome, Unsupported
    P, U, H, D, T = setup()
    vfs.reset()
    df, feats, nabits, tg, case = _pin_table(ctx, cfg)
    n = cfg["rows"]
    p = vfs.VPath("/vfs/a.pin")
    vfs.put(p, df)
    reader = T.TabularDataReader.from_path(p)
    spectra = [case("scannr"), case("label")]
    cs = int(ctx.fresh_int("row_chunk", 1, n + 1))
    P.CHUNK_SIZE_ROWS_FOR_DROP_COLUMNS = cs
    column = feats + spectra if cfg.get("with_ids", True) else list(feats)
    inputs = dict(table=df, row_chunk=cs)
    lst = []
    try:
        dropped = P.drop_missing_values_and_fill_spectra_dataframe(reader=reader, column=list(column), spectra=list(spectra), df_spectra_list=lst)
    except Unsupported:
        raise
    except Exception as ex:
        return PathOutcome([], inputs, None, "exc", note=type(ex).__name__ + ":" + str(ex)[:80])
    dropped = list(dropped or [])
    props = []
    for j, f in enumerate(feats):
        has_na = z3.Or([nabits[(i, j)] for i in range(n)])
        props.append(("dropped[%s]_iff_has_missing_value" % f, z3.BoolVal(f in dropped) == has_na))
    props.append(("only_features_dropped", z3.BoolVal(all(f in feats for f in dropped) and len(set(dropped)) == len(dropped))))
    if cfg.get("with_ids", True):
        rows = sum(len(d) for d in lst)
        props.append(("spectra_rows_never_dropped", z3.BoolVal(rows == n and all(list(d.columns) == spectra for d in lst))))
    return PathOutcome(props, inputs, None)


def sym_read(ctx, cfg):
    import z3
    from symx import sympd, vfs, core, stubs
    from symx.core import PathOutcome, Unsupported
    P, U, H, D, T = setup()
    vfs.reset()
    df, feats, nabits, tg, case = _pin_table(ctx, cfg)
    n = cfg["rows"]
    p = vfs.VPath("/vfs/a" + cfg.get("suffix", ".pin"))
    vfs.put(p, df)
    cc = int(ctx.fresh_int("column_chunk", cfg["colchunk"][0], cfg["colchunk"][1]))
    rc = int(ctx.fresh_int("row_chunk", 1, n + 1))
    P.CHUNK_SIZE_COLUMNS_FOR_DROP_COLUMNS = cc
    P.CHUNK_SIZE_ROWS_FOR_DROP_COLUMNS = rc
    stubs.MODE[0] = "nondet" if cfg.get("sched") else "submission"
    inputs = dict(table=df, column_chunk=cc, row_chunk=rc)
    try:
        ds = P.read_percolator(p, max_workers=2, **(dict(charge_column="Charge") if cfg.get("charge_others") is not None else {}), **_naming(cfg)[1])
    except Unsupported:
        raise
    except Exception as ex:
        return PathOutcome([], inputs, None, "exc", note=type(ex).__name__ + ":" + str(ex)[:80])
    finally:
        stubs.MODE[0] = "submission"
    opt = cfg.get("optional", [])
    props = []
    exp_spec = [case(c) for c in ("filename", "scannr", "ret_time", "expmass") if c == "scannr" or c in opt]
    props.append(("spectrum_key_columns", z3.BoolVal(list(ds.spectrum_columns) == exp_spec)))
    props.append(("target_column", z3.BoolVal(ds.target_column == case("label"))))
    props.append(("peptide_protein_specid_columns", z3.BoolVal((ds.peptide_column, ds.protein_column, ds.specId_column, ds.scan_column) ==
                                                               (case("peptide"), case("proteins"), case("specid"), case("scannr")))))
    props.append(("columns_in_file_order", z3.BoolVal(list(ds.columns) == list(df.columns))))
    for j, f in enumerate(feats):
        has_na = z3.Or([nabits[(i, j)] for i in range(n)])
        props.append(("feature[%s]_kept_iff_no_missing_value" % f, z3.BoolVal(f in ds.feature_columns) == z3.Not(has_na)))
    reserved = {case(c) for c in RESERVED} | {case(c) for c in opt}
    others = ["Charge%d" % (k + 2) for k in range(cfg.get("charge_others") or 0)]
    if cfg.get("charge_others") is not None:
        # the designated charge column is a feature only if there is no other charge column; the others are features
        props.append(("charge_column_recognised", z3.BoolVal(ds.charge_column == "Charge")))
        props.append(("designated_charge_column_is_a_feature_iff_no_other_charge_column", z3.BoolVal(("Charge" in ds.feature_columns) == (not others))))
        props.append(("other_charge_columns_are_features", z3.BoolVal(all(c in ds.feature_columns for c in others))))
    props.append(("features_are_non_reserved_columns", z3.BoolVal(all(f in feats or f in others or f == "Charge" for f in ds.feature_columns) and not (set(ds.feature_columns) & reserved))))
    sd = ds.spectra_dataframe
    ok = sd is not None and len(sd) == n and set(sd.columns) == set(exp_spec + [case("label")])
    props.append(("one_entry_per_row", z3.BoolVal(bool(ok))))
    if ok:
        lab = sd[case("label")]._v
        for i in range(n):
            props.append(("row%d_target_iff_label_1" % i, core.zbool(lab[i]) == tg[i] if isinstance(lab[i], (bool, core.SBool)) else z3.BoolVal(False)))
            props.append(("row%d_in_file_order" % i, core._z(sd[case("scannr")]._v[i]) == core._z(df[case("scannr")]._v[i])))
    return PathOutcome(props, inputs, None)


def harnesses(tier):
    from symx.runner import Harness
    P, U, H, D, T = setup()
    hs = []
    stubs = ["list of symbolic length (symx.seglist) for the feature list", "len/range shadowed in mokapot.utils and mokapot.parsers.pin",
             "pandas.read_csv / pyarrow -> VFS contracts", "joblib.Parallel -> sequential tasks (nondeterministic order where stated)"]
    for k in (2, 3, 4, 5):
        for (n, c, mc) in (((1, 60), (8, 64), 10), ((1, 16), (2, 8), 12)):
            hs.append(Harness("chunks[k=%d,n=%d..%d,c=%d..%d]" % (k, n[0], n[1], c[0], c[1]), dict(k=k, n=list(n), c=list(c), maxchunks=mc), sym_chunks, real="chunks",
                              functions=[P.create_chunks_with_identifier, U.create_chunks], bounds=dict(features="%d..%d" % n, identifier_columns=k, chunk_size="%d..%d" % c, max_chunks=mc), stubs=stubs,
                              assumptions=["n_features + k <= (max_chunks-1) * chunk_size (number of chunks bounded)"], sample_rate=1.0))
    hs.append(Harness("find_column[reserved names, casing/order/duplicates]", dict(names=RESERVED, search=["specid", "label", "ScanNr", "filename", "Proteins"]), sym_find, real="find",
                      functions=[H.find_column, H.find_columns, H.find_required_column, H.find_optional_column], stubs=[], sample_rate=0.05))
    for enc in ("int", "bool"):
        for n in (1, 2, 3):
            hs.append(Harness("convert_targets[%s,n=%d]" % (enc, n), dict(n=n, encoding=enc), sym_targets, real="targets", functions=[U.convert_targets_column], stubs=["pandas -> sympd"],
                              assumptions=["integer labels in -3..3"], sample_rate=0.5))
    for with_ids in (True, False):
        hs.append(Harness("nascan[rows=2,features=2,%s]" % ("with ids" if with_ids else "features only"), dict(rows=2, features=2, encoding="pm1", with_ids=with_ids), sym_nascan, real="nascan",
                          functions=[P.drop_missing_values_and_fill_spectra_dataframe], stubs=stubs, sample_rate=0.5))
    reads = [dict(rows=2, features=2, encoding="pm1", optional=["expmass"], colchunk=[2, 6], casing=2),
             dict(rows=1, features=2, encoding="pm1", optional=[], colchunk=[2, 5], casing=2, feature_last=True),
             dict(rows=1, features=2, encoding="zero", optional=["expmass"], colchunk=[2, 6], casing=2, tricky_feature_names=True),
             dict(rows=1, features=1, encoding="pm1", optional=[], colchunk=[3, 5], casing=2, charge_others=1),
             dict(rows=1, features=1, encoding="pm1", optional=[], colchunk=[3, 5], casing=2, charge_others=0),
             dict(rows=2, features=1, encoding="zero", optional=[], colchunk=[2, 4], casing=0, rotate=3),
             dict(rows=1, features=1, encoding="pm1", optional=["expmass", "calcmass"], colchunk=[3, 6], casing=2, named={"expmass": "ObsMass", "calcmass": "TheoMass"}),
             dict(rows=1, features=1, encoding="pm1", optional=["expmass", "calcmass", "ret_time"], colchunk=[3, 7], casing=2, named={"calcmass": "TheoMass", "ret_time": "RT_min"}),
             dict(rows=1, features=2, encoding="bool", optional=["expmass", "ret_time", "filename", "calcmass"], colchunk=[3, 7], casing=1, suffix=".parquet")]
    if tier == "thorough":
        reads += [dict(rows=2, features=3, encoding="pm1", optional=["expmass", "ret_time"], colchunk=[2, 8], casing=3, rotate=2, sched=True),
                  dict(rows=3, features=2, encoding="pm1", optional=["filename"], colchunk=[2, 5], casing=2, sched=True),
                  dict(rows=2, features=4, encoding="zero", optional=["expmass"], colchunk=[2, 8], casing=2),
                  dict(rows=2, features=3, encoding="bool", optional=["filename"], colchunk=[2, 6], casing=1, feature_last=True, rotate=2),
                  dict(rows=2, features=1, encoding="zero", optional=["expmass"], colchunk=[2, 6], casing=1, charge_others=2)]
    for cfg in reads:
        hs.append(Harness("read_percolator[%s]" % ",".join("%s=%s" % kv for kv in cfg.items()), cfg, sym_read, real="read",
                          functions=[P.read_percolator, P.create_chunks_with_identifier, P.drop_missing_values_and_fill_spectra_dataframe, U.convert_targets_column, H.find_column, D.OnDiskPsmDataset.__init__],
                          bounds=cfg, stubs=stubs, assumptions=["well-formed table: all reserved columns present once"], sample_rate=0.3))
    return hs


# ------------------------------------------------------------------ concrete --
def real_chunks(cfg, inp):
    import mokapot.parsers.pin as P
    n, c, k = int(inp["n_features"]), int(inp["chunk_size"]), int(cfg["k"])
    feats = ["f%d" % i for i in range(n)]
    ids = ["id%d" % i for i in range(k)]
    try:
        chunks = P.create_chunks_with_identifier(list(feats), list(ids), c)
    except Exception as ex:
        return dict(exception=repr(ex), violation="raised %r" % (ex,))
    flat = [x for ch in chunks for x in ch]
    v = None
    if not any(set(ids) <= set(ch) for ch in chunks):
        v = "no chunk holds all %d identifier columns for %d features with chunk size %d: chunks %s" % (k, n, c, [len(ch) for ch in chunks])
    elif [x for x in flat if x in feats] != feats:
        v = "features not each exactly once in order"
    elif any(len(ch) > c and not list(ch) == ids for ch in chunks):
        v = "chunk longer than the chunk size"
    return dict(outputs=None, violation=v)


def _real_table(inp):
    import numpy as np
    import pandas as pd
    t = inp["table"]
    data = {}
    for c in t["columns"]:
        vals = t["data"][c]
        if any(v is None for v in vals) or c.lower().startswith("feat"):
            data[c] = [np.nan if v is None else float(v) for v in vals]
        else:
            data[c] = vals
    return pd.DataFrame(data, columns=t["columns"])


def real_read(cfg, inp):
    import tempfile
    from pathlib import Path
    import numpy as np
    import mokapot
    import mokapot.parsers.pin as P
    df = _real_table(inp)
    case, named_kw = _naming(cfg)
    n = len(df)
    old = (P.CHUNK_SIZE_COLUMNS_FOR_DROP_COLUMNS, P.CHUNK_SIZE_ROWS_FOR_DROP_COLUMNS)
    P.CHUNK_SIZE_COLUMNS_FOR_DROP_COLUMNS, P.CHUNK_SIZE_ROWS_FOR_DROP_COLUMNS = int(inp["column_chunk"]), int(inp["row_chunk"])
    try:
        with tempfile.TemporaryDirectory(prefix="verif_c10_") as d:
            p = Path(d) / ("a" + cfg.get("suffix", ".pin"))
            if p.suffix == ".parquet":
                df.to_parquet(p, index=False)
            else:
                df.to_csv(p, sep="\t", index=False)
            try:
                ds = mokapot.read_pin(p, max_workers=2, **(dict(charge_column="Charge") if cfg.get("charge_others") is not None else {}), **named_kw)[0]
            except Exception as ex:
                return dict(exception=repr(ex), violation="read_pin raised %r (columns %s, column chunk %s)" % (ex, list(df.columns), inp["column_chunk"]))
    finally:
        P.CHUNK_SIZE_COLUMNS_FOR_DROP_COLUMNS, P.CHUNK_SIZE_ROWS_FOR_DROP_COLUMNS = old
    opt = cfg.get("optional", [])
    feats = [c for c in df.columns if c.startswith("feat") or c in ("PeptideLength", "LabelScore")]
    exp_spec = [case(c) for c in ("filename", "scannr", "ret_time", "expmass") if c == "scannr" or c in opt]
    if cfg.get("charge_others") is not None:
        # file order; the designated charge column is a feature only without other charge columns
        others = ["Charge%d" % (k + 2) for k in range(cfg["charge_others"])]
        feats = [c for c in df.columns if c in feats or c in others or (c == "Charge" and not others)]
    exp_feat = [f for f in feats if not df[f].isna().any()]
    lab = df[case("label")]
    exp_t = [bool(x == 1) if lab.dtype != bool else bool(x) for x in lab]
    v = None
    if list(ds.spectrum_columns) != exp_spec:
        v = "spectrum columns %s, expected %s" % (ds.spectrum_columns, exp_spec)
    elif list(ds.feature_columns) != exp_feat:
        v = "feature columns %s, expected %s" % (list(ds.feature_columns), exp_feat)
    elif len(ds.spectra_dataframe) != n:
        v = "%d entries for %d rows" % (len(ds.spectra_dataframe), n)
    elif [bool(x) for x in ds.spectra_dataframe[case("label")]] != exp_t:
        v = "targets %s, expected %s" % (list(ds.spectra_dataframe[case("label")]), exp_t)
    elif list(ds.spectra_dataframe[case("scannr")]) != list(df[case("scannr")]):
        v = "rows not in file order"
    elif (ds.target_column, ds.peptide_column, ds.protein_column, ds.specId_column) != (case("label"), case("peptide"), case("proteins"), case("specid")):
        v = "reserved columns misidentified"
    return dict(outputs=None, violation=v)


def real_targets(cfg, inp):
    import pandas as pd
    import mokapot.utils as U
    lab = inp["labels"]
    df = pd.DataFrame({"SpecId": list(range(len(lab))), "Label": [bool(x) for x in lab] if cfg["encoding"] == "bool" else [int(x) for x in lab]})
    bad = cfg["encoding"] != "bool" and any(x < -1 or x > 1 for x in lab)
    try:
        out = U.convert_targets_column(df, "Label")
    except ValueError as ex:
        if bad:
            return dict(exception="ValueError", violation=None)
        return dict(exception=repr(ex), violation="raised %r for labels %s" % (ex, lab))
    except Exception as ex:
        return dict(exception=repr(ex), violation="raised %r" % (ex,))
    if bad:
        return dict(violation="accepted out-of-range labels %s" % lab)
    exp = [bool(x) if cfg["encoding"] == "bool" else x == 1 for x in lab]
    got = [bool(x) for x in out["Label"]]
    return dict(outputs=dict(targets=got), violation=None if got == exp else "targets %s for labels %s" % (got, lab))


def real_find(cfg, inp):
    import mokapot.parsers.helpers as H
    allc = inp["columns"]
    for target in cfg["search"]:
        matches = [c for c in allc if c.lower() == target.lower()]
        try:
            got = H.find_required_column(target, allc)
            if not (len(matches) == 1 and got == matches[0]):
                return dict(violation="find_required_column(%r, %s) = %r" % (target, allc, got))
        except ValueError:
            if len(matches) == 1:
                return dict(violation="find_required_column(%r, %s) raised" % (target, allc))
        if H.find_columns(target, allc) != matches:
            return dict(violation="find_columns(%r, %s)" % (target, allc))
    return dict(outputs=None, violation=None)


def real_nascan(cfg, inp):
    import tempfile
    from pathlib import Path
    import mokapot.parsers.pin as P
    import mokapot.tabular_data as T
    df = _real_table(inp)
    case = CASINGS[cfg.get("casing", 2)]
    n = len(df)
    feats = [c for c in df.columns if c.startswith("feat") or c in ("PeptideLength", "LabelScore")]
    spectra = [case("scannr"), case("label")]
    old = P.CHUNK_SIZE_ROWS_FOR_DROP_COLUMNS
    P.CHUNK_SIZE_ROWS_FOR_DROP_COLUMNS = int(inp["row_chunk"])
    try:
        with tempfile.TemporaryDirectory(prefix="verif_c10_") as d:
            p = Path(d) / "a.pin"
            df.to_csv(p, sep="\t", index=False)
            lst = []
            column = feats + spectra if cfg.get("with_ids", True) else list(feats)
            try:
                dropped = P.drop_missing_values_and_fill_spectra_dataframe(reader=T.TabularDataReader.from_path(p), column=list(column), spectra=list(spectra), df_spectra_list=lst)
            except Exception as ex:
                return dict(exception=repr(ex), violation="raised %r" % (ex,))
    finally:
        P.CHUNK_SIZE_ROWS_FOR_DROP_COLUMNS = old
    dropped = list(dropped or [])
    exp = [f for f in feats if df[f].isna().any()]
    if sorted(dropped) != sorted(exp):
        return dict(violation="dropped %s, expected %s" % (dropped, exp))
    if cfg.get("with_ids", True) and sum(len(x) for x in lst) != n:
        return dict(violation="spectra table has %d rows for %d input rows (row chunk %s)" % (sum(len(x) for x in lst), n, inp["row_chunk"]))
    return dict(outputs=None, violation=None)


REAL = {"nascan": real_nascan, "chunks": real_chunks, "read": real_read, "targets": real_targets, "find": real_find}
