"""C11 - score calibration is a strictly increasing affine map anchoring 0 and -1.

Real code executed symbolically: mokapot.dataset.calibrate_scores,
OnDiskPsmDataset.calibrate_scores (targets read from a VFS file in three label encodings),
_update_labels, qvalues.tdc (real for N <= 3; for larger N replaced by fresh q-values
constrained by the C01 formula, which C01 discharges). The per-fold application inside
brew._predict is an obligation of the C02 harness ('calibration_per_fold')."""
from fractions import Fraction

from . import spec

ID = "C11"


def setup():
    from symx import world, symnp, sympd, vfs
    world.import_mokapot_patched()
    Q = world.mod("mokapot.qvalues")
    D = world.mod("mokapot.dataset")
    U = world.mod("mokapot.utils")
    world.rebind(Q, np=symnp)
    world.rebind(D, np=symnp, pd=sympd, TabularDataReader=vfs.VReader)
    world.rebind(U, np=symnp, pd=sympd)
    return Q, D, U


def tdc_by_spec(ctx, memo=None):
    """Stub of qvalues.tdc: fresh q-values constrained to equal the C01 formula of the
    (symbolic) inputs. Guarantee discharged by check C01."""
    import z3
    from symx import symnp, core
    from symx.core import SNum
    memo = {} if memo is None else memo

    def tdc(scores, target, desc=True):
        scores = symnp.array(scores)
        target = symnp.array(target)
        if target.dtype.kind != "b":
            target = target.astype(bool)
        key = (tuple(core._z(s).get_id() for s in scores.items), tuple(core._z(t).get_id() for t in target.items), bool(desc))
        if key in memo:
            return symnp.SArray(list(memo[key]), symnp.float64)
        zs = [core._z(s) for s in scores.items]
        zs = [z3.ToReal(z) if z3.is_int(z) else z for z in zs]
        zt = [core.zbool(t) for t in target.items]
        qs = spec.spec_q_terms(zs, zt, bool(desc))
        out = []
        for i, q in enumerate(qs):
            v = z3.Real(ctx.fresh_name("q"))
            ctx.assume(v == q)
            out.append(SNum(v))
        memo[key] = out
        return symnp.SArray(list(out), symnp.float64)
    return tdc


def sym(ctx, cfg):
    import z3
    from symx import symnp, sympd, vfs, core
    from symx.core import SNum, SBool, PathOutcome, Unsupported
    Q, D, U = setup()
    n, mode = cfg["n"], cfg["mode"]
    zs = [z3.Real("s%d" % i) for i in range(n)]
    zt = [z3.Bool("t%d" % i) for i in range(n)]
    e = z3.Real("eval_fdr")
    ctx.assume(z3.And(e > 0, e <= 1))
    scores = symnp.SArray([SNum(z) for z in zs], symnp.float64)
    inputs = dict(scores=[SNum(z) for z in zs], targets=[SBool(z) for z in zt], eval_fdr=SNum(e))
    real_tdc = Q.__dict__["tdc"]
    if cfg.get("tdc") == "spec":
        Q.__dict__["tdc"] = tdc_by_spec(ctx)
    rec = {}
    real_min, real_median = symnp.amin, symnp.median

    class NP:
        pass
    import types
    ns = types.SimpleNamespace(**{k: v for k, v in vars(symnp).items() if not k.startswith("__")})

    def rmin(a, *k, **kw):
        rec["T"] = real_min(a)
        return rec["T"]

    def rmed(a, *k, **kw):
        if len(a) == 0:
            raise core.Abort("no decoys: outside the premise (numpy yields nan)")
        rec["D"] = real_median(a)
        return rec["D"]
    ns.min, ns.median = rmin, rmed
    D.np = ns
    try:
        if mode == "function":
            out = D.calibrate_scores(scores, symnp.SArray([SBool(z) for z in zt], symnp.bool_), SNum(e))
        else:
            vfs.reset()
            enc = cfg["encoding"]
            col = [SBool(z) for z in zt] if enc == "bool" else [core.ite(SBool(z), 1, -1 if enc == "pm1" else 0) for z in zt]
            p = vfs.VPath("/vfs/a.pin")
            vfs.put(p, sympd.DataFrame({"SpecId": list(range(n)), "Label": col, "f": [SNum(z) for z in zs]}))
            ds = D.OnDiskPsmDataset.__new__(D.OnDiskPsmDataset)
            ds.filename, ds.target_column = p, "Label"
            out = ds.calibrate_scores(scores, SNum(e))
    except Unsupported:
        raise
    except RuntimeError as ex:
        if "No target PSMs were below the 'eval_fdr' threshold" in str(ex):
            qs = spec.spec_q_terms(zs, zt, True)
            none_acc = z3.Not(z3.Or([z3.And(t, q <= e) for t, q in zip(zt, qs)])) if n else z3.BoolVal(True)
            return PathOutcome([("error_only_without_accepted_target", none_acc)], inputs, None, note="RuntimeError(no accepted target)")
        return PathOutcome([], inputs, None, "exc", note="RuntimeError:" + str(ex)[:80])
    except Exception as ex:
        return PathOutcome([], inputs, None, "exc", note=type(ex).__name__ + ":" + str(ex)[:80])
    finally:
        Q.__dict__["tdc"] = real_tdc
        D.np = symnp
    # ---- oracle -------------------------------------------------------------
    qs = spec.spec_q_terms(zs, zt, True)
    acc = [z3.And(t, q <= e) for t, q in zip(zt, qs)]
    props = [("returned_only_with_an_accepted_target", z3.Or(acc))]
    # T = lowest accepted target score, Dm = median decoy score (spec)
    Tm = z3.Real("T_spec")
    Dm = z3.Real("D_spec")
    defT = z3.And(z3.Or([z3.And(a, Tm == s) for a, s in zip(acc, zs)]), z3.And([z3.Implies(a, Tm <= s) for a, s in zip(acc, zs)]))
    # median of the decoy scores: value m such that #decoys<=m >= ceil and #decoys>=m >= ceil; for an even count the mean of the two middle ones
    dec = [z3.Not(t) for t in zt]
    nd = z3.Sum([z3.If(d, 1, 0) for d in dec])
    lo_m, hi_m = z3.Real("med_lo"), z3.Real("med_hi")

    def is_kth(v, k_from_bottom):
        # v is a decoy score with (#decoys < v) <= k-1 and (#decoys <= v) >= k
        less = z3.Sum([z3.If(z3.And(d, s < v), 1, 0) for d, s in zip(dec, zs)])
        leq = z3.Sum([z3.If(z3.And(d, s <= v), 1, 0) for d, s in zip(dec, zs)])
        return z3.And(z3.Or([z3.And(d, v == s) for d, s in zip(dec, zs)]), less <= k_from_bottom - 1, leq >= k_from_bottom)
    cases = []
    for k in range(1, n + 1):
        if k % 2:
            cases.append(z3.Implies(nd == k, z3.And(is_kth(lo_m, (k + 1) // 2), hi_m == lo_m)))
        else:
            cases.append(z3.Implies(nd == k, z3.And(is_kth(lo_m, k // 2), is_kth(hi_m, k // 2 + 1))))
    defD = z3.And(z3.And(cases), Dm == (lo_m + hi_m) / 2)
    premise = z3.And(nd >= 1, defT, defD, Tm > Dm)
    if len(out) != n:
        return PathOutcome([("shape", z3.BoolVal(False))], inputs, None)
    for i in range(n):
        oi = core._z(out.items[i])
        # out_i = a*s_i + b with a = 1/(T-D) > 0, b = -T/(T-D): stated multiplicatively over the SPEC anchors
        props.append(("affine_anchored%d" % i, z3.Implies(premise, oi * (Tm - Dm) == zs[i] - Tm)))
    return PathOutcome(props, inputs, dict(out=list(out.items)), prefer=[z3.And(nd >= 1, defT, defD, Tm > Dm)])


def harnesses(tier):
    from symx.runner import Harness
    Q, D, U = setup()
    hs = []
    nmax = 4  # n = 5 with the spec-constrained q-values: z3 does not finish the non-linear anchor queries in 60 s
    for n in range(1, nmax + 1):
        modes = [("function", None)] + ([("ondisk", "pm1"), ("ondisk", "zero"), ("ondisk", "bool")] if (n <= 3 or tier == "thorough") else [])
        for mode, enc in modes:
            tdc = "real" if n <= 3 else "spec"
            hs.append(Harness("calibrate[%s%s,n=%d,tdc=%s]" % (mode, "," + enc if enc else "", n, tdc), dict(n=n, mode=mode, encoding=enc, tdc=tdc), sym, real="calibrate",
                              functions=[D.calibrate_scores, D.OnDiskPsmDataset.calibrate_scores, D._update_labels, Q.tdc, U.convert_targets_column],
                              bounds=dict(N=n), stubs=["numpy/pandas -> symnp/sympd", "file -> VFS"] + (["qvalues.tdc -> fresh q-values constrained by the C01 formula (discharged by C01)"] if tdc == "spec" else []),
                              assumptions=["premise of the statement: >= 1 decoy and the lowest accepted target lies strictly above the decoy median",
                                           "scores finite reals; 0 < eval_fdr <= 1", "higher scores are better (brew always calibrates with desc=True)"]))
    return hs


# ------------------------------------------------------------------ concrete --
def real_calibrate(cfg, inp):
    import tempfile, os
    from pathlib import Path
    import numpy as np
    import pandas as pd
    import mokapot.dataset as D
    scores = np.array([float(x) for x in inp["scores"]], dtype=float)
    tg = [bool(x) for x in inp["targets"]]
    e = float(inp["eval_fdr"])
    n = len(scores)
    q = spec.conc_q([Fraction(x) for x in scores.tolist()], tg, True)
    lab = spec.conc_labels(q, tg, Fraction(e))
    if any(l is None for l in lab):
        return dict(skip=True)
    acc = [i for i in range(n) if lab[i] == 1]
    try:
        if cfg["mode"] == "function":
            out = D.calibrate_scores(scores, np.array(tg), e)
        else:
            with tempfile.TemporaryDirectory(prefix="verif_c11_") as d:
                enc = cfg["encoding"]
                col = tg if enc == "bool" else [1 if t else (-1 if enc == "pm1" else 0) for t in tg]
                p = Path(d) / "a.pin"
                pd.DataFrame({"SpecId": list(range(n)), "Label": col, "f": scores}).to_csv(p, sep="\t", index=False)
                ds = D.OnDiskPsmDataset.__new__(D.OnDiskPsmDataset)
                ds.filename, ds.target_column = p, "Label"
                out = ds.calibrate_scores(scores, e)
    except RuntimeError as ex:
        if not acc and "No target PSMs were below" in str(ex):
            return dict(exception="RuntimeError", violation=None)
        return dict(exception=repr(ex), violation="raised %r with accepted targets %s" % (ex, acc))
    except Exception as ex:
        return dict(exception=repr(ex), violation="raised %r" % (ex,))
    if not acc:
        return dict(violation="returned scores although no target is accepted")
    dec = sorted(scores[i] for i in range(n) if not tg[i])
    if not dec:
        return dict(outputs=None, violation=None)
    T = min(scores[i] for i in acc)
    Dm = float(np.median(dec))
    if not T > Dm:
        return dict(outputs=None, violation=None)  # outside the premise
    exp = [(s - T) / (T - Dm) for s in scores]
    for i in range(n):
        if abs(float(out[i]) - exp[i]) > 1e-9 * max(1.0, abs(exp[i])):
            return dict(violation="calibrated[%d]=%r, expected %r (scores=%s targets=%s eval_fdr=%r)" % (i, float(out[i]), exp[i], scores.tolist(), tg, e))
    return dict(outputs=dict(out=[float(x) for x in out]), violation=None)


REAL = {"calibrate": real_calibrate}
