"""C11 - score calibration is a strictly increasing affine map anchoring 0 and -1.

Real code executed symbolically: mokapot.dataset.calibrate_scores,
OnDiskPsmDataset.calibrate_scores (targets read from a VFS file in three label encodings),
_update_labels, qvalues.tdc (real for N <= 3; for larger N replaced by fresh q-values
constrained by the C01 formula, which C01 discharges). The per-fold application inside
brew._predict is an obligation of the C02 harness ('calibration_per_fold')."""
from fractions import Fraction

from . import spec

ID = "C11"


def setup():
    from symx import world, symnp, sympd, vfs
    world.import_mokapot_patched()
    Q = world.mod("mokapot.qvalues")
    D = world.mod("mokapot.dataset")
    U = world.mod("mokapot.utils")
    world.rebind(Q, np=symnp)
    world.rebind(D, np=symnp, pd=sympd, TabularDataReader=vfs.VReader)
    world.rebind(U, np=symnp, pd=sympd)
    return Q, D, U


def tdc_by_spec(ctx, memo=None):
    """Stub of qvalues.tdc: fresh q-values constrained to equal the C01 formula of the
    (symbolic) inputs. Guarantee discharged by check C01."""
    import z3
    from symx import symnp, core
    from symx.core import SNum
    memo = {} if memo is None else memo

    def tdc(scores, target, desc=True):
        scores = symnp.array(scores)
        target = symnp.array(target)
        if target.dtype.kind != "b":
            target = target.astype(bool)
        key = (tuple(core._z(s).get_id() for s in scores.items), tuple(core._z(t).get_id() for t in target.items), bool(desc))
        if key in memo:
            return symnp.SArray(list(memo[key]), symnp.float64)
        zs = [core._z(s) for s in scores.items]
        zs = [z3.ToReal(z) if z3.is_int(z) else z for z in zs]
        zt = [core.zbool(t) for t in target.items]
        qs = spec.spec_q_terms(zs, zt, bool(desc))
        out = []
        for i, q in enumerate(qs):
            v = z3.Real(ctx.fresh_name("q"))
            ctx.assume(v == q)
            out.append(SNum(v))
        memo[key] = out
        return symnp.SArray(list(out), symnp.float64)
    return tdc


def sym(ctx, cfg):
    import z3
    from symx import symnp, sympd, vfs, core
    from symx.core import SNum, SBool, PathOutcome, Unsupported
    Q, D, U = setup()
    n, mode = cfg["n"], cfg["mode"]
    zs = [z3.Real("s%d" % i) for i in range(n)]
    zt = [z3.Bool("t%d" % i) for i in range(n)]
    e = z3.Real("eval_fdr")
    ctx.assume(z3.And(e > 0, e <= 1))
    scores = symnp.SArray([SNum(z) for z in zs], symnp.float64)
    inputs = dict(scores=[SNum(z) for z in zs], targets=[SBool(z) for z in zt], eval_fdr=SNum(e))
    real_tdc = Q.__dict__["tdc"]
    if cfg.get("tdc") == "spec":
        Q.__dict__["tdc"] = tdc_by_spec(ctx)
    rec = {}
    real_min, real_median = symnp.amin, symnp.median

    class NP:
        pass
    import types
    ns = types.SimpleNamespace(**{k: v for k, v in vars(symnp).items() if not k.startswith("__")})

    def rmin(a, *k, **kw):
        rec["T"] = real_min(a)
        return rec["T"]

    class _MedianOfNothing(Exception):
        pass

    def rmed(a, *k, **kw):
        if len(a) == 0:
            if not ctx.decide(z3.Or([z3.Not(t) for t in zt])):
                raise core.Abort("no decoys: outside the premise (numpy yields nan)")
            # the table HOLDS a decoy, yet the code selected none for the median: numpy answers nan
            raise _MedianOfNothing("median of an empty selection although the table holds decoys (numpy: nan scores)")
        rec["D"] = real_median(a)
        return rec["D"]
    ns.min, ns.median = rmin, rmed
    D.np = ns
    try:
        if mode == "function":
            out = D.calibrate_scores(scores, symnp.SArray([SBool(z) for z in zt], symnp.bool_), SNum(e))
        else:
            vfs.reset()
            enc = cfg["encoding"]
            col = [SBool(z) for z in zt] if enc == "bool" else [core.ite(SBool(z), 1, -1 if enc == "pm1" else 0) for z in zt]
            p = vfs.VPath("/vfs/a.pin")
            vfs.put(p, sympd.DataFrame({"SpecId": list(range(n)), "Label": col, "f": [SNum(z) for z in zs]}))
            ds = D.OnDiskPsmDataset.__new__(D.OnDiskPsmDataset)
            ds.filename, ds.target_column = p, "Label"
            out = ds.calibrate_scores(scores, SNum(e))
    except Unsupported:
        raise
    except RuntimeError as ex:
        if "No target PSMs were below the 'eval_fdr' threshold" in str(ex):
            qs = spec.spec_q_terms(zs, zt, True)
            none_acc = z3.Not(z3.Or([z3.And(t, q <= e) for t, q in zip(zt, qs)])) if n else z3.BoolVal(True)
            return PathOutcome([("error_only_without_accepted_target", none_acc)], inputs, None, note="RuntimeError(no accepted target)")
        return PathOutcome([], inputs, None, "exc", note="RuntimeError:" + str(ex)[:80])
    except Exception as ex:
        return PathOutcome([], inputs, None, "exc", note=type(ex).__name__ + ":" + str(ex)[:80])
    finally:
        Q.__dict__["tdc"] = real_tdc
        D.np = symnp
    # ---- oracle -------------------------------------------------------------
    qs = spec.spec_q_terms(zs, zt, True)
    acc = [z3.And(t, q <= e) for t, q in zip(zt, qs)]
    props = [("returned_only_with_an_accepted_target", z3.Or(acc))]
    # T = lowest accepted target score, Dm = median decoy score (spec)
    Tm = z3.Real("T_spec")
    Dm = z3.Real("D_spec")
    defT = z3.And(z3.Or([z3.And(a, Tm == s) for a, s in zip(acc, zs)]), z3.And([z3.Implies(a, Tm <= s) for a, s in zip(acc, zs)]))
    # median of the decoy scores: value m such that #decoys<=m >= ceil and #decoys>=m >= ceil; for an even count the mean of the two middle ones
    dec = [z3.Not(t) for t in zt]
    nd = z3.Sum([z3.If(d, 1, 0) for d in dec])
    lo_m, hi_m = z3.Real("med_lo"), z3.Real("med_hi")

    def is_kth(v, k_from_bottom):
        # v is a decoy score with (#decoys < v) <= k-1 and (#decoys <= v) >= k
        less = z3.Sum([z3.If(z3.And(d, s < v), 1, 0) for d, s in zip(dec, zs)])
        leq = z3.Sum([z3.If(z3.And(d, s <= v), 1, 0) for d, s in zip(dec, zs)])
        return z3.And(z3.Or([z3.And(d, v == s) for d, s in zip(dec, zs)]), less <= k_from_bottom - 1, leq >= k_from_bottom)
    cases = []
    for k in range(1, n + 1):
        if k % 2:
            cases.append(z3.Implies(nd == k, z3.And(is_kth(lo_m, (k + 1) // 2), hi_m == lo_m)))
        else:
            cases.append(z3.Implies(nd == k, z3.And(is_kth(lo_m, k // 2), is_kth(hi_m, k // 2 + 1))))
    defD = z3.And(z3.And(cases), Dm == (lo_m + hi_m) / 2)
    premise = z3.And(nd >= 1, defT, defD, Tm > Dm)
    if len(out) != n:
        return PathOutcome([("shape", z3.BoolVal(False))], inputs, None)
    for i in range(n):
        oi = core._z(out.items[i])
        # out_i = a*s_i + b with a = 1/(T-D) > 0, b = -T/(T-D): stated multiplicatively over the SPEC anchors
        props.append(("affine_anchored%d" % i, z3.Implies(premise, oi * (Tm - Dm) == zs[i] - Tm)))
    return PathOutcome(props, inputs, dict(out=list(out.items)), prefer=[z3.And(nd >= 1, defT, defD, Tm > Dm)])


def harnesses(tier):
    from symx.runner import Harness
    Q, D, U = setup()
    hs = []
    nmax = 4  # n = 5 with the spec-constrained q-values: z3 does not finish the non-linear anchor queries in 60 s
    for n in range(1, nmax + 1):
        modes = [("function", None)] + ([("ondisk", "pm1"), ("ondisk", "zero"), ("ondisk", "bool")] if (n <= 3 or tier == "thorough") else [])
        for mode, enc in modes:
            tdc = "real" if n <= 3 else "spec"
            hs.append(Harness("calibrate[%s%s,n=%d,tdc=%s]" % (mode, "," + enc if enc else "", n, tdc), dict(n=n, mode=mode, encoding=enc, tdc=tdc), sym, real="calibrate",
                              functions=[D.calibrate_scores, D.OnDiskPsmDataset.calibrate_scores, D._update_labels, Q.tdc, U.convert_targets_column],
                              bounds=dict(N=n), stubs=["numpy/pandas -> symnp/sympd", "file -> VFS"] + (["qvalues.tdc -> fresh q-values constrained by the C01 formula (discharged by C01)"] if tdc == "spec" else []),
                              assumptions=["premise of the statement: >= 1 decoy and the lowest accepted target lies strictly above the decoy median",
                                           "scores finite reals; 0 < eval_fdr <= 1", "higher scores are better (brew always calibrates with desc=True)"]))
    from . import brewlib
    B = brewlib.setup()[0]
    pre = [((True, True), 3), ((True, False), 3), ((False, True), 3)] if tier == "quick" else \
          [((True, True), 4), ((True, False), 4), ((False, True), 4), ((False, False), 3), ((True, False, True), 4), ((False, True, True), 4), ((True, True, False), 4)]
    pre = [(d_, n_, False) for d_, n_ in pre] + [((True, True), 3, True)]
    for dfm, n, same in pre:
        cfg = dict(n=n, df=list(dfm), sym_chunks=True, same_fold=same)
        hs.append(Harness("brew_pretrained[n=%d,decision_function=%s%s]" % (n, "".join("y" if b else "n" for b in dfm), ",every model carrying fold number 1" if same else ""), cfg, sym_brew_pretrained, real="brew_pretrained",
                          functions=[B.brew, B._predict, B.predict_fold, D.OnDiskPsmDataset._split], bounds=dict(N=n, folds=len(dfm), prediction_chunk="1..N+1"),
                          stubs=["as C02: recording models with fresh-symbol scores; calibrate_scores -> recorder (kernel decided above)", "crc32 -> uninterpreted injective hash"],
                          assumptions=["models supplied already trained (brew(models=[...])), one per fold; fold k's estimator has a decision_function iff stated"], sample_rate=0.02))
    return hs


# ------------------------------------------------------------------ concrete --
def real_calibrate(cfg, inp):
    import tempfile, os
    from pathlib import Path
    import numpy as np
    import pandas as pd
    import mokapot.dataset as D
    scores = np.array([float(x) for x in inp["scores"]], dtype=float)
    tg = [bool(x) for x in inp["targets"]]
    e = float(inp["eval_fdr"])
    n = len(scores)
    q = spec.conc_q([Fraction(x) for x in scores.tolist()], tg, True)
    lab = spec.conc_labels(q, tg, Fraction(e))
    if any(l is None for l in lab):
        return dict(skip=True)
    acc = [i for i in range(n) if lab[i] == 1]
    try:
        if cfg["mode"] == "function":
            out = D.calibrate_scores(scores, np.array(tg), e)
        else:
            with tempfile.TemporaryDirectory(prefix="verif_c11_") as d:
                enc = cfg["encoding"]
                col = tg if enc == "bool" else [1 if t else (-1 if enc == "pm1" else 0) for t in tg]
                p = Path(d) / "a.pin"
                pd.DataFrame({"SpecId": list(range(n)), "Label": col, "f": scores}).to_csv(p, sep="\t", index=False)
                ds = D.OnDiskPsmDataset.__new__(D.OnDiskPsmDataset)
                ds.filename, ds.target_column = p, "Label"
                out = ds.calibrate_scores(scores, e)
    except RuntimeError as ex:
        if not acc and "No target PSMs were below" in str(ex):
            return dict(exception="RuntimeError", violation=None)
        return dict(exception=repr(ex), violation="raised %r with accepted targets %s" % (ex, acc))
    except Exception as ex:
        return dict(exception=repr(ex), violation="raised %r" % (ex,))
    if not acc:
        return dict(violation="returned scores although no target is accepted")
    dec = sorted(scores[i] for i in range(n) if not tg[i])
    if not dec:
        return dict(outputs=None, violation=None)
    T = min(scores[i] for i in acc)
    Dm = float(np.median(dec))
    if not T > Dm:
        return dict(outputs=None, violation=None)  # outside the premise
    if not np.all(np.isfinite(np.asarray(out, dtype=float))):
        return dict(violation="calibrated scores are not finite: %s (scores=%s targets=%s eval_fdr=%r, label encoding %s)" % (np.asarray(out, dtype=float).tolist(), scores.tolist(), tg, e, cfg.get("encoding")))
    exp = [(s - T) / (T - Dm) for s in scores]
    for i in range(n):
        if not np.isfinite(float(out[i])) or abs(float(out[i]) - exp[i]) > 1e-9 * max(1.0, abs(exp[i])):
            return dict(violation="calibrated[%d]=%r, expected %r (scores=%s targets=%s eval_fdr=%r)" % (i, float(out[i]), exp[i], scores.tolist(), tg, e))
    return dict(outputs=dict(out=[float(x) for x in out]), violation=None)


REAL = {"calibrate": real_calibrate}


# ------------------------------------------------------------------ per-fold application --
def sym_brew_pretrained(ctx, cfg):
    """The per-fold application of the calibration inside the real brew()/_predict when the models
    are supplied already trained (brew(models=...) - the way models of an earlier run are fed back)
    and need not all be of one kind: cfg['df'][k] says whether the estimator of fold k+1 has a
    decision_function (calibrated) or not (probabilities are returned as they are).
    calibrate_scores is a recording stub (its numeric kernel is decided by the harnesses above)."""
    import z3
    from symx import symnp, vfs, stubs, core
    from symx.core import SNum, PathOutcome, Unsupported
    from . import brewlib
    B, D, P, U, T, Q = brewlib.setup()
    vfs.reset()
    brewlib.HASHES.clear()
    N, dfm = cfg["n"], list(cfg["df"])
    folds = len(dfm)
    ds, s = brewlib.make_dataset(ctx, D, N, 0, 2, "pm1")
    B.CHUNK_SIZE_ROWS_PREDICTION = int(ctx.fresh_int("chunk_prediction", 1, N + 1)) if cfg.get("sym_chunks") else N + 1
    B.CHUNK_SIZE_READ_ALL_DATA = N + 1
    stubs.MODE[0] = "submission"
    gen = symnp.Generator("identity")
    log = {}
    models = []
    for k in range(folds):
        m = brewlib.StubModel(log, decision_function=dfm[k], override=True)
        # (same_fold: one saved model handed over once per fold - every list entry carries the fold number it was trained
        #  for, here 1; brew pairs models and folds by POSITION in the sorted list, which a stable sort leaves alone)
        m.is_trained, m.fold, m.uid = True, (1 if cfg.get("same_fold") else k + 1), k + 1
        # direction of the model's best single FEATURE (lower-is-better for an e-value): it says nothing about
        # the model's own output, which is always higher-is-better
        m.desc = bool(core.SBool(z3.Bool("best_feature_desc_%d" % k)))
        models.append(m)
    cal = brewlib.CalRecorder()
    B.calibrate_scores = cal
    B.update_labels = lambda fn, sc, tc, fdr: symnp.SArray([0] * len(sc), symnp.float64)
    split_rec = []
    real_split = D.OnDiskPsmDataset._split

    def rec_split(self, folds_, rng_):
        r = real_split(self, folds_, rng_)
        split_rec.append([list(int(i) for i in a.items) for a in r])
        return r
    D.OnDiskPsmDataset._split = rec_split
    inputs = dict(files=brewlib.dataset_inputs([s]), df=dfm, feature_descs=[bool(m.desc) for m in models], chunk_prediction=B.CHUNK_SIZE_ROWS_PREDICTION,
                  hashes=[[brewlib.s_crc32(core.SKey((SNum(s["scan"][i]), SNum(s["mass"][i])))) for i in range(N)]])
    try:
        _, _, scores, _ = B.brew([ds], model=models, test_fdr=SNum(z3.Real("test_fdr")), folds=folds, max_workers=1, rng=gen)
    except Unsupported:
        raise
    except Exception as ex:
        return PathOutcome([], inputs, None, "exc", note=type(ex).__name__ + ":" + str(ex)[:80])
    finally:
        D.OnDiskPsmDataset._split = real_split
    fl = split_rec[0]
    foldof = {i: k for k, f in enumerate(fl) for i in f}
    sc = scores[0]
    props = [("score_count", z3.BoolVal(len(sc) == N))]
    want_calls = [k for k in range(folds) if dfm[k] and fl[k]]
    props.append(("one_calibration_per_nonempty_fold_with_a_decision_function: %d calls for folds %s" % (len(cal.calls), want_calls), z3.BoolVal(len(cal.calls) == len(want_calls))))
    props.append(("model_output_is_calibrated_as_higher_is_better_whatever_the_best_feature_direction: %s" % getattr(cal, "descs", []),
                  z3.BoolVal(all(d is True for d in getattr(cal, "descs", [])))))
    for r in range(N):
        k = foldof[r]
        raw = z3.Real("score_m%s_f%s_r%d" % (k + 1, 0, r))
        term = core._z(sc.items[r])
        if not dfm[k]:
            props.append(("row%d_of_uncalibrated_fold%d_keeps_its_raw_score" % (r, k + 1), term == raw))
            continue
        ok = []
        for (ins, tg, outs) in cal.calls:
            rows_k = sorted(i for i in range(N) if foldof[i] == k)
            same_fold = {core._z(a).get_id() for a in ins} == {z3.Real("score_m%s_f%s_r%d" % (k + 1, 0, i)).get_id() for i in rows_k} and len(ins) == len(tg)
            if not same_fold:
                continue
            for a, b, o in zip(ins, tg, outs):
                ok.append(z3.And(core._z(o) == term, core._z(a) == raw, core.zbool(b) == s["lab"][r]))
        props.append(("row%d_calibrated_within_fold%d_against_its_own_label" % (r, k + 1), z3.Or(ok) if ok else z3.BoolVal(False)))
    prefer = [s["lab"][a] != s["lab"][b] for a in range(N) for b in range(a + 1, N) if foldof[a] != foldof[b]]
    return PathOutcome(props, inputs, None, prefer=prefer)


def real_brew_pretrained(cfg, inp):
    import tempfile
    import numpy as np
    import mokapot
    from . import brewlib, c02
    B = __import__("sys").modules["mokapot.brew"]
    dfm = [bool(x) for x in inp["df"]]
    folds = len(dfm)
    rows = inp["files"][0]
    scan, mass = c02.realize_keys(rows, inp["hashes"][0])
    rows = dict(rows, scan=scan, mass=mass)
    labels = [bool(x) for x in rows["labels"]]
    log = {}
    calls = []
    with tempfile.TemporaryDirectory(prefix="verif_c11_") as d:
        p, df = brewlib.real_dataset(None, d, 0, rows, "pm1")
        try:
            ds = mokapot.read_pin(p, max_workers=1)[0]
        except Exception as ex:
            return dict(exception=repr(ex), violation="read_pin raised %r" % (ex,))
        class _ByPosition(c02._RealModel):
            """scores and log entries by the model's POSITION in the list (uid), whatever its .fold says"""

            def predict(self, psms):
                keep, self.fold = self.fold, self.uid
                try:
                    return c02._RealModel.predict(self, psms)
                finally:
                    self.fold = keep
        models = []
        for k in range(folds):
            m = _ByPosition(log, dfm[k])
            m.uid = k + 1
            m.is_trained, m.fold, m.override = True, (1 if cfg.get("same_fold") else k + 1), True
            m.desc = bool((inp.get("feature_descs") or [True] * folds)[k])
            models.append(m)
        old = (B.CHUNK_SIZE_ROWS_PREDICTION, B.calibrate_scores)
        B.CHUNK_SIZE_ROWS_PREDICTION = int(inp["chunk_prediction"])

        bad_desc = []

        def rec_cal(scores, targets, eval_fdr, desc=True):
            calls.append(([float(x) for x in scores], [bool(x) for x in targets]))
            if desc is not True:
                bad_desc.append(desc)
            if len(scores) != len(targets):
                raise ValueError("'scores' and 'target' must be the same length")  # what the real kernel answers
            return np.asarray(scores, dtype=float) + 0.5  # marks a calibrated value

        B.calibrate_scores = rec_cal
        try:
            _, _, scores, _ = mokapot.brew([ds], model=models, test_fdr=1.0, folds=folds, max_workers=1, rng=c02.scripted_rng([]))
        except Exception as ex:
            return dict(exception=repr(ex), violation="brew with pretrained models (decision_function per fold: %s) raised %r after calibration calls %s" % (dfm, ex, calls))
        finally:
            B.CHUNK_SIZE_ROWS_PREDICTION, B.calibrate_scores = old
    if bad_desc:
        return dict(violation="the fold models' outputs (higher is better) are calibrated with desc=%s: the direction of the models' best single feature %s was handed to the calibration" % (bad_desc, inp.get("feature_descs")))
    pred = {}
    for fold, rr in log.get("predicts", []):
        for (f, r) in rr:
            pred[r] = fold
    raw = lambda r: 1000.0 * pred[r] + r + 0.25 + (500.0 if labels[r] else 0.0)
    want_folds = sorted({pred[r] for r in pred if dfm[pred[r] - 1]})
    if len(calls) != len(want_folds):
        return dict(violation="decision_function per fold %s, prediction chunk %s: %d calibration calls for the %d non-empty folds %s that are to be calibrated (a fold must be calibrated once, as a whole): %s"
                    % (dfm, inp["chunk_prediction"], len(calls), len(want_folds), want_folds, calls))
    for (ss, tt), k in zip(calls, want_folds):
        rows_k = sorted(r for r in pred if pred[r] == k)
        if sorted(round(x, 6) for x in ss) != sorted(round(raw(r), 6) for r in rows_k):
            return dict(violation="calibration call for fold %d received %s, the fold's raw scores are %s" % (k, ss, [raw(r) for r in rows_k]))
    for (ss, tt) in calls:
        # identify rows from the scripted scores: score = 1000*fold + r + .25 (+500 for targets)
        for x, t in zip(ss, tt):
            r = int((x - 0.25) % 500 + 1e-6)
            if r >= len(labels) or abs(raw(r) - x) > 1e-6:
                return dict(violation="calibration received a score %r that no model produced" % (x,))
            if labels[r] != t:
                return dict(violation="decision_function per fold %s: fold %d was calibrated with the labels of other PSMs (row %d is %s, the calibration was told %s); calls %s"
                            % (dfm, pred[r], r, "a target" if labels[r] else "a decoy", "target" if t else "decoy", calls))
    for r in range(len(labels)):
        exp = raw(r) + (0.5 if dfm[pred[r] - 1] else 0.0)
        if abs(float(scores[0][r]) - exp) > 1e-6:
            return dict(violation="row %d (fold %d, decision_function=%s): returned %r, expected %r" % (r, pred[r], dfm[pred[r] - 1], float(scores[0][r]), exp))
    return dict(outputs=None, violation=None)


REAL["brew_pretrained"] = real_brew_pretrained
