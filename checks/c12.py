"""C12 - training feeds the estimator rows and labels of the same PSM, in any order.

Real code executed symbolically: mokapot.model.Model.fit, Model.decision_function/predict,
_get_starting_labels, _get_scores, _find_hyperparameters, LinearPsmDataset (init, features,
targets, _find_best_feature, _update_labels), dataset._update_labels. The estimator is a
recording scikit-learn estimator whose scores are fresh symbols per (fit call, row);
qvalues.tdc is replaced by fresh q-values constrained by the C01 formula (discharged by C01);
rng.permutation is an arbitrary permutation."""
from fractions import Fraction

from . import spec

ID = "C12"
FEATS = ["rowid", "f"]


def setup():
    from symx import world, symnp, sympd
    world.import_mokapot_patched()
    M = world.mod("mokapot.model")
    D = world.mod("mokapot.dataset")
    Q = world.mod("mokapot.qvalues")
    U = world.mod("mokapot.utils")
    world.rebind(M, np=symnp, pd=sympd)
    world.rebind(D, np=symnp, pd=sympd)
    world.rebind(Q, np=symnp)
    world.rebind(U, np=symnp, pd=sympd)
    return M, D, Q


_REC = {}
SCALE = {"rowid": (3, 10), "f": (2, 5)}  # per-feature affine parameters of the tagging scaler (fitted in training column order)


class TagScaler:
    """Scaler stub with per-column parameters bound at fit time to the TRAINING column order
    (like StandardScaler): column j -> a_j * x + b_j."""
    is_scaler = True

    def __init__(self):
        self.params = None

    def fit(self, X):
        self.params = [SCALE[c] for c in FEATS][:X.ncol]
        return self

    def _apply(self, X):
        from symx import symnp
        return symnp.SArray2([[a * v + b for v, (a, b) in zip(row, self.params)] for row in X.rows], symnp.float64, X.ncol)

    def fit_transform(self, X):
        self.fit(X)
        return self._apply(X)

    def transform(self, X):
        return self._apply(X)



def _estimator_class():
    from sklearn.base import BaseEstimator

    class RecordingEstimator(BaseEstimator):
        """scikit-learn estimator: fit() records what it is given, decision_function()
        returns a fresh symbolic score per (fit call, row id)."""

        def __init__(self, tag=0):
            self.tag = tag

        def fit(self, X, y):
            import z3
            rec = _REC[self.tag]
            rec["fits"].append((X, y))
            return self

        def decision_function(self, X):
            import z3
            from symx import symnp, core
            rec = _REC[self.tag]
            k = len(rec["fits"])
            rec["scored"].append(X)
            out = []
            for row in X.rows:
                rid = row[0]
                if rec.get("scaled") and not isinstance(rid, core.Sym):
                    a0, b0 = SCALE["rowid"]
                    rid = (rid - b0) / a0
                    if rid != int(rid):
                        # the value in the row-id column is not a row id scaled with the row-id parameters
                        out.append(core.SNum(z3.Real("score_fit%d_misplaced%d" % (k, len(out)))))
                        continue
                if isinstance(rid, core.Sym):
                    # a symbolic value where the row id was expected: features were matched by position
                    out.append(core.SNum(z3.Real("score_fit%d_misplaced%d" % (k, len(out)))))
                    continue
                rid = int(rid)
                key = (k, rid)
                if key not in rec["scores"]:
                    rec["scores"][key] = core.SNum(z3.Real("score_fit%d_row%d" % key))
                out.append(rec["scores"][key])
            return symnp.SArray(out, symnp.float64)
    class ProbaEstimator(BaseEstimator):
        """no decision_function: scores come from predict_proba (two-column or one-column output)"""

        def __init__(self, tag=0, columns=2):
            self.tag = tag
            self.columns = columns

        def fit(self, X, y):
            _REC[self.tag]["fits"].append((X, y))
            return self

        def predict_proba(self, X):
            from symx import symnp
            s = RecordingEstimator.decision_function(self, X)
            if self.columns == 2:
                return symnp.SArray2([[1 - v, v] for v in s.items], symnp.float64, 2)
            return symnp.SArray2([[v] for v in s.items], symnp.float64, 1)
    RecordingEstimator.Proba = ProbaEstimator
    return RecordingEstimator


def sym(ctx, cfg):
    import z3
    from symx import symnp, sympd, core
    from symx.core import SNum, SBool, PathOutcome, Unsupported
    from checks.c11 import tdc_by_spec
    M, D, Q = setup()
    n, iters = cfg["n"], cfg["iters"]
    zt = [z3.Bool("t%d" % i) for i in range(n)]
    zf = [z3.Real("f%d" % i) for i in range(n)]
    fdr = z3.Real("train_fdr")
    ctx.assume(z3.And(fdr > 0, fdr <= 1))
    if cfg.get("labels"):
        for z, v in zip(zt, cfg["labels"]):
            ctx.assume(z == z3.BoolVal(bool(v)))
    shuffle = bool(SBool(z3.Bool("shuffle"))) if cfg.get("shuffle") is None else cfg["shuffle"]
    twin = bool(cfg.get("case_twin"))  # a second feature whose name differs from "f" only in its case
    zg = [z3.Real("g%d" % i) for i in range(n)]
    feats = list(FEATS) + (["F"] if twin else [])
    df = sympd.DataFrame({"spec": list(range(n)), "Label": [SBool(z) for z in zt], "pep": ["PEP%d" % i for i in range(n)],
                          "rowid": list(range(n)), "f": [SNum(z) for z in zf]})
    if twin:
        df["F"] = [SNum(z) for z in zg]
    _REC.clear()
    _REC[7] = dict(fits=[], scored=[], scores={}, scaled=bool(cfg.get("scaler")))
    Est = _estimator_class()
    if cfg.get("proba"):
        Base = Est
        Est = lambda tag: Base.Proba(tag, cfg["proba"])
    gen = symnp.Generator("nondet")
    inputs = dict(targets=[SBool(z) for z in zt], f=[SNum(z) for z in zf], g=[SNum(z) for z in zg] if cfg.get("case_twin") else None, train_fdr=SNum(fdr), shuffle=shuffle, perms=gen.log,
                  scores=_ScoreTable(_REC[7]["scores"]), direction=cfg.get("direction"))
    real_tdc = Q.__dict__["tdc"]
    Q.__dict__["tdc"] = tdc_by_spec(ctx)
    M.clone = lambda e: e if getattr(e, "is_scaler", False) else Est(e.tag)
    for i in range(1, 4):  # predict_proba scores are probabilities: keep the fresh score symbols in [0, 1]
        pass
    try:
        psms = D.LinearPsmDataset(df, target_column="Label", spectrum_columns="spec", peptide_column="pep", feature_columns=list(feats), copy_data=True)
        model = M.Model(Est(7), scaler=TagScaler() if cfg.get("scaler") else "as-is", train_fdr=SNum(fdr), max_iter=iters, direction=cfg.get("direction"), shuffle=shuffle, rng=gen, override=True)
        model.fit(psms)
        if cfg.get("refit"):
            # fitting an already trained model again: the starting labels come from the model's own scores
            # (the `direction` argument is documented to be ignored then)
            model.fit(psms)
        # prediction on a dataset whose feature columns come in another order
        df2 = sympd.DataFrame({"f": [SNum(z) for z in zf], "spec": list(range(n)), "Label": [SBool(z) for z in zt], "pep": ["PEP%d" % i for i in range(n)],
                               "rowid": list(range(n))})
        if twin:
            df2["F"] = [SNum(z) for z in zg]
        psms2 = D.LinearPsmDataset(df2, target_column="Label", spectrum_columns="spec", peptide_column="pep", feature_columns=(["F"] if twin else []) + ["f", "rowid"], copy_data=True)
        pred = model.predict(psms2)
        if cfg.get("again"):
            # one trained model scores several tables one after the other whose feature columns come in
            # different orders: (f, rowid) above, now (rowid, f); the last matrix handed to the estimator is checked
            psms_a = D.LinearPsmDataset(df, target_column="Label", spectrum_columns="spec", peptide_column="pep", feature_columns=list(feats), copy_data=True)
            pred = model.predict(psms_a)
        pred2 = None
        if cfg.get("roundtrip"):
            # save / load_model: pickle is modelled by copy.deepcopy, which drives the same
            # __reduce_ex__ / __getstate__ / __setstate__ protocol; the file is an in-memory object
            import copy

            class _VF:
                def __init__(self):
                    self.obj = None

                def __enter__(self):
                    return self

                def __exit__(self, *a):
                    return False
            files = {}

            def vopen(path, mode="r", *a, **k):
                if "w" in mode:
                    files[str(path)] = _VF()
                if str(path) not in files:
                    raise FileNotFoundError(str(path))
                return files[str(path)]

            class _Pickle:
                @staticmethod
                def dump(obj, f, *a, **k):
                    f.obj = copy.deepcopy(obj)

                @staticmethod
                def load(f, *a, **k):
                    return copy.deepcopy(f.obj)

            class _PdText:
                @staticmethod
                def read_csv(*a, **k):
                    raise UnicodeDecodeError("utf-8", b"\x80", 0, 1, "invalid start byte")  # a pickle is not text
            saved = (M.__dict__.get("open"), M.pickle, M.pd)
            M.open, M.pickle, M.pd = vopen, _Pickle, _PdText
            try:
                from pathlib import PurePosixPath

                class _VP(PurePosixPath):
                    """a path whose open() reaches the in-memory file, like the builtin open() above"""

                    def open(self, mode="r", *a, **k):
                        return vopen(self, mode)
                saved_path = M.__dict__.get("Path")
                M.Path = _VP
                model.save(_VP("/vfs/model.pkl"))
                loaded = M.load_model(_VP("/vfs/model.pkl"))
            finally:
                if saved_path is not None:
                    M.Path = saved_path
                M.pickle, M.pd = saved[1], saved[2]
                if saved[0] is None:
                    M.__dict__.pop("open", None)
                else:
                    M.open = saved[0]
            # the re-loaded model scores a table in the TRAINING column order (rowid, f), the model itself has just scored (f, rowid)
            df3 = sympd.DataFrame({"spec": list(range(n)), "Label": [SBool(z) for z in zt], "pep": ["PEP%d" % i for i in range(n)],
                                   "rowid": list(range(n)), "f": [SNum(z) for z in zf]})
            psms3 = D.LinearPsmDataset(df3, target_column="Label", spectrum_columns="spec", peptide_column="pep", feature_columns=["rowid", "f"], copy_data=True)
            pred2 = loaded.predict(psms3)
    except Unsupported:
        raise
    except (ValueError, RuntimeError) as ex:
        msg = str(ex)
        legit = ("No target PSMs" in msg or "No decoy PSMs" in msg or "No PSMs accepted at train_fdr" in msg or "No PSMs found below the 'eval_fdr'" in msg
                 or "Model performs worse after training" in msg)
        if legit:
            # the fit calls made before the run stopped are still checked for alignment
            props = _fit_props(_REC[7], n, zt, zf, fdr, cfg, None, None, None)
            return PathOutcome(props, inputs, None, "assert" if props else "legit_exc", note=type(ex).__name__ + "(" + msg[:40] + ")")
        return PathOutcome([], inputs, None, "exc", note=type(ex).__name__ + ":" + msg[:80])
    except Exception as ex:
        return PathOutcome([], inputs, None, "exc", note=type(ex).__name__ + ":" + str(ex)[:80])
    finally:
        Q.__dict__["tdc"] = real_tdc
    props = _fit_props(_REC[7], n, zt, zf, fdr, cfg, iters * (2 if cfg.get("refit") else 1), pred, True)
    if twin:
        Xp = _REC[7]["scored"][-1]
        for j, r in enumerate(Xp.rows):
            props.append(("predict_row%d_twin_feature_F_by_name" % j, z3.BoolVal(len(r) == 3) if len(r) != 3 else core._z(r[2]) == zg[j]))
        for k, (X, y) in enumerate(_REC[7]["fits"]):
            for r in X.rows:
                if len(r) == 3 and not isinstance(r[0], core.Sym):
                    props.append(("fit%d_row%d_twin_feature_F" % (k, int(r[0])), core._z(r[2]) == zg[int(r[0])]))
    if cfg.get("roundtrip"):
        props.append(("reloaded_model_predicts_for_every_psm", z3.BoolVal(pred2 is not None and len(pred2) == len(pred))))
        if pred2 is not None and len(pred2) == len(pred):
            for i, (a, b) in enumerate(zip(pred.items, pred2.items)):
                props.append(("reloaded_model_predicts_identically_row%d" % i, core._z(a) == core._z(b)))
    return PathOutcome(props, inputs, None)


def _fit_props(rec, n, zt, zf, fdr, cfg, iters, pred, check_predict):
    import z3
    from symx import core
    props = [("fit_calls", z3.BoolVal(len(rec["fits"]) == iters))] if iters is not None else []
    prev_scores = None
    scaled = bool(cfg.get("scaler"))
    (a0, b0), (a1, b1) = (SCALE["rowid"], SCALE["f"]) if scaled else ((1, 0), (1, 0))

    def rid_of(v):
        if isinstance(v, core.Sym):
            return v
        u = (v - b0) / a0 if scaled else v
        return int(u) if int(u) == u else v
    for k, (X, y) in enumerate(rec["fits"]):
        rows = X.rows
        ids = [rid_of(r[0]) for r in rows]
        props.append(("fit%d_shapes" % k, z3.BoolVal(len(rows) == len(y) and len(set(ids)) == len(ids) and all(isinstance(i, int) and 0 <= i < n for i in ids))))
        if not (len(rows) == len(y) and all(isinstance(i, int) and 0 <= i < n for i in ids)):
            continue
        for j, r in enumerate(rows):
            i = ids[j]
            # the feature row is PSM i's own row, and the label handed over belongs to PSM i:
            props.append(("fit%d_row%d_features" % (k, i), core._z(r[1]) == a1 * zf[i] + b1))
            yj = core._z(y.items[j])
            props.append(("fit%d_row%d_label_is_target_flag" % (k, i), (yj == 1) == zt[i]))
            props.append(("fit%d_row%d_label_binary" % (k, i), z3.Or(yj == 0, yj == 1)))
        present = set(ids)
        # negatives are exactly the decoys: every decoy is present
        for i in range(n):
            if i not in present:
                props.append(("fit%d_absent_row%d_is_a_target" % (k, i), zt[i]))
        if prev_scores is not None:
            # positives are exactly the targets accepted at train_fdr under the previous scores
            qs = spec.spec_q_terms([core._z(s) for s in prev_scores], zt, True)
            for i in range(n):
                acc = z3.And(zt[i], qs[i] <= fdr)
                props.append(("fit%d_row%d_positive_iff_accepted" % (k, i), z3.Implies(zt[i], z3.BoolVal(i in present) == acc)))
        elif cfg.get("direction") == "f":
            qd = spec.spec_q_terms(zf, zt, True)
            qa = spec.spec_q_terms(zf, zt, False)
            cd = z3.Sum([z3.If(z3.And(zt[i], qd[i] <= fdr), 1, 0) for i in range(n)])
            ca = z3.Sum([z3.If(z3.And(zt[i], qa[i] <= fdr), 1, 0) for i in range(n)])
            for i in range(n):
                acc = z3.If(cd >= ca, z3.And(zt[i], qd[i] <= fdr), z3.And(zt[i], qa[i] <= fdr))
                props.append(("fit0_row%d_positive_iff_accepted_by_direction" % i, z3.Implies(zt[i], z3.BoolVal(i in present) == acc)))
        # the scores the next labels are computed from: estimator scores after fit k, per row id
        prev_scores = [rec["scores"].get((k + 1, i)) for i in range(n)]
        if any(s is None for s in prev_scores):
            prev_scores = None
    if not check_predict:
        return props
    # prediction selects features by name
    Xp = rec["scored"][-1]
    props.append(("predict_shape", z3.BoolVal(len(Xp.rows) == n and len(pred) == n)))
    if len(Xp.rows) == n:
        for j, r in enumerate(Xp.rows):
            props.append(("predict_row%d_by_name_with_its_own_scaling" % j, z3.And(core._z(r[0]) == a0 * j + b0, core._z(r[1]) == a1 * zf[j] + b1)))
    return props


class _ScoreTable:
    def __init__(self, d):
        self.d = d

    def __symx_eval__(self, m):
        from symx import core
        return [[k[0], k[1], core.to_jsonable(core.eval_model(m, v))] for k, v in sorted(self.d.items())]


def harnesses(tier):
    from symx.runner import Harness
    M, D, Q = setup()
    hs = []
    stubs = ["estimator -> recording scikit-learn estimator; scores fresh symbols per (fit call, row)", "qvalues.tdc -> fresh q-values constrained by the C01 formula (discharged by C01)",
             "rng.permutation -> arbitrary permutation (all permutations for n <= 3, else {identity, reversal, rotation})", "scaler 'as-is' (real DummyScaler)", "sklearn.base.clone -> new recorder with the same tag"]
    funcs = [M.Model.fit, M.Model.decision_function, M._get_starting_labels, M._get_scores, M._find_hyperparameters, D.LinearPsmDataset.__init__, D.PsmDataset._find_best_feature, D._update_labels]
    hs.append(Harness("fit[n=2,iters=2,direction=f,scaler with per-feature parameters]", dict(n=2, iters=2, direction="f", proba=0, scaler=True), sym, real="fit", functions=funcs,
                      bounds=dict(N=2, max_iter=2), stubs=stubs + ["scaler -> per-column affine map fitted in training column order (stands for StandardScaler)"],
                      assumptions=["0 < train_fdr <= 1"], sample_rate=0.6))
    for nn, sc in ([(2, True)] if tier == "quick" else [(3, True), (3, False)]):
        hs.append(Harness("fit[n=%d,iters=2,direction=f,%ssave and load_model]" % (nn, "scaler with per-feature parameters," if sc else ""), dict(n=nn, iters=2, direction="f", proba=0, scaler=sc, roundtrip=True, shuffle=False), sym, real="fit", functions=funcs + [M.Model.save, M.load_model],
                          bounds=dict(N=nn, max_iter=2), stubs=stubs + ["pickle -> copy.deepcopy (same __reduce_ex__/__getstate__/__setstate__ protocol) into an in-memory file; pandas.read_csv on a pickle -> UnicodeDecodeError"],
                          assumptions=["0 < train_fdr <= 1", "the byte-level pickle codec is trusted (exercised for real in the replay)"], sample_rate=0.6))
    # (N = 4 with three targets: with N = 3 the model's scores and the direction feature accept the same PSMs
    #  on every path that gets as far as the second fit)
    hs.append(Harness("fit[n=4,iters=1,direction=f,labels TTTD,fitted twice]", dict(n=4, iters=1, direction="f", proba=0, refit=True, shuffle=False, labels=[1, 1, 1, 0]), sym, real="fit", functions=funcs,
                      bounds=dict(N=4, max_iter=1, fits=2), stubs=stubs, assumptions=["0 < train_fdr <= 1", "the second fit starts from the trained model's own scores", "labels fixed to three targets and a decoy"], sample_rate=0.3))
    if tier == "thorough":
        hs.append(Harness("fit[n=4,iters=1,direction=f,fitted twice]", dict(n=4, iters=1, direction="f", proba=0, refit=True, shuffle=False), sym, real="fit", functions=funcs,
                          bounds=dict(N=4, max_iter=1, fits=2), stubs=stubs, assumptions=["0 < train_fdr <= 1"], sample_rate=0.1))
    hs.append(Harness("fit[n=2,iters=1,direction=f,features f and F differing only in case]", dict(n=2, iters=1, direction="f", proba=0, case_twin=True, shuffle=False), sym, real="fit", functions=funcs,
                      bounds=dict(N=2, max_iter=1, features=3), stubs=stubs, assumptions=["0 < train_fdr <= 1"], sample_rate=0.6))
    hs.append(Harness("fit[n=2,iters=1,direction=f,scaler with per-feature parameters,two tables with different column orders scored one after the other]",
                      dict(n=2, iters=1, direction="f", proba=0, scaler=True, again=True, shuffle=False), sym, real="fit", functions=funcs,
                      bounds=dict(N=2, max_iter=1, predictions=2), stubs=stubs + ["scaler -> per-column affine map fitted in training column order (stands for StandardScaler)"],
                      assumptions=["0 < train_fdr <= 1"], sample_rate=0.6))
    if tier == "quick":
        # three targets and a decoy: the smallest table on which two label sets can accept the same NUMBER of
        # targets but different targets (with N = 3 every q-value is 1/2 or 1)
        hs.append(Harness("fit[n=4,iters=2,direction=f,labels TTTD,no shuffle]", dict(n=4, iters=2, direction="f", proba=0, labels=[1, 1, 1, 0], shuffle=False), sym, real="fit", functions=funcs,
                          bounds=dict(N=4, max_iter=2), stubs=stubs, assumptions=["0 < train_fdr <= 1", "labels fixed to three targets and one decoy, shuffling off (the general N = 4 case is in the thorough tier)"], sample_rate=0.3))
    cfgs = [(2, 2, None, 0), (3, 2, None, 0), (3, 2, "f", 0), (3, 2, "f", 2), (2, 2, None, 1)] if tier == "quick" else \
        [(2, 3, None, 0), (3, 3, None, 0), (3, 3, "f", 0), (4, 2, None, 0), (4, 2, "f", 0), (3, 2, None, 2), (3, 2, "f", 1)]
    for n, iters, direction, proba in cfgs:
        hs.append(Harness("fit[n=%d,iters=%d,direction=%s%s]" % (n, iters, direction, ",predict_proba %d col" % proba if proba else ""),
                          dict(n=n, iters=iters, direction=direction, proba=proba), sym, real="fit", functions=funcs,
                          bounds=dict(N=n, max_iter=iters), stubs=stubs,
                          assumptions=["0 < train_fdr <= 1", "override=True so that the comparison with the starting direction does not end the run", "pickle round trip outside (C-level serialisation)"],
                          sample_rate=0.6))
    return hs


# ------------------------------------------------------------------ concrete --
try:
    from sklearn.base import BaseEstimator as _SkBase
except Exception:  # pragma: no cover
    _SkBase = object


class PickRec(_SkBase):
    """module-level (hence picklable) twin of the recording estimator of real_fit"""
    STATE = {}

    def __init__(self, tag=0):
        self.tag = tag

    def fit(self, X, y):
        import numpy as np
        PickRec.STATE["log"]["fits"].append((np.array(X, dtype=float).copy(), np.array(y, dtype=float).copy()))
        return self

    def decision_function(self, X):
        import numpy as np
        st = PickRec.STATE
        k = len(st["log"]["fits"])
        st["log"]["scored"].append(np.array(X, dtype=float).copy())
        return np.array([st["table"].get((k, st["rid"](r[0])), 0.0) for r in np.asarray(X)], dtype=float)


class PickScaler(_SkBase):
    def fit(self, X, y=None):
        import numpy as np
        self.params_ = [SCALE[c] for c in FEATS][:np.asarray(X).shape[1]]
        return self

    def transform(self, X):
        import numpy as np
        X = np.asarray(X, dtype=float)
        return np.column_stack([a * X[:, j] + b for j, (a, b) in enumerate(self.params_)])

    def fit_transform(self, X, y=None):
        return self.fit(X).transform(X)


def real_fit(cfg, inp):
    import numpy as np
    import pandas as pd
    from sklearn.base import BaseEstimator
    import mokapot
    from mokapot.model import Model
    from mokapot.dataset import LinearPsmDataset
    n = len(inp["targets"])
    tg = [bool(x) for x in inp["targets"]]
    f = [float(x) for x in inp["f"]]
    table = {(int(k), int(r)): float(v) for k, r, v in inp["scores"]}
    log = dict(fits=[], scored=[])
    (a0, b0), (a1, b1) = (SCALE["rowid"], SCALE["f"]) if cfg.get("scaler") else ((1, 0), (1, 0))

    def rid(v):
        u = (float(v) - b0) / a0
        return int(round(u)) if abs(u - round(u)) < 1e-9 else -1

    class Rec(BaseEstimator):
        def __init__(self, tag=0):
            self.tag = tag

        def fit(self, X, y):
            log["fits"].append((np.array(X, dtype=float).copy(), np.array(y, dtype=float).copy()))
            return self

        def decision_function(self, X):
            k = len(log["fits"])
            log["scored"].append(np.array(X, dtype=float).copy())
            return np.array([table.get((k, rid(r[0])), 0.0) for r in np.asarray(X)], dtype=float)

    class RecProba(BaseEstimator):
        def __init__(self, tag=0, columns=2):
            self.tag = tag
            self.columns = columns

        def fit(self, X, y):
            log["fits"].append((np.array(X, dtype=float).copy(), np.array(y, dtype=float).copy()))
            return self

        def predict_proba(self, X):
            k = len(log["fits"])
            log["scored"].append(np.array(X, dtype=float).copy())
            v = np.array([table.get((k, rid(r[0])), 0.0) for r in np.asarray(X)], dtype=float)
            return np.column_stack([1 - v, v]) if self.columns == 2 else v.reshape(-1, 1)

    class Scripted(np.random.Generator):
        def __init__(self, perms):
            super().__init__(np.random.PCG64(0))
            self._perms = list(perms)

        def permutation(self, x, axis=0):
            x = np.asarray(x)
            if self._perms and len(self._perms[0]) == len(x):
                return x[self._perms.pop(0)]
            return x.copy()
    df = pd.DataFrame({"spec": list(range(n)), "Label": tg, "pep": ["PEP%d" % i for i in range(n)], "rowid": list(range(n)), "f": f})
    twin = bool(cfg.get("case_twin"))
    g = [float(x) for x in (inp.get("g") or [])]
    if twin:
        df["F"] = g
    fdr = float(inp["train_fdr"])
    try:
        psms = LinearPsmDataset(df, target_column="Label", spectrum_columns="spec", peptide_column="pep", feature_columns=list(FEATS) + (["F"] if twin else []), copy_data=True)
        scaler = "as-is"
        if cfg.get("scaler"):
            from sklearn.base import BaseEstimator as _BE

            class RealTagScaler(_BE):
                def fit(self, X, y=None):
                    self.params_ = [SCALE[c] for c in FEATS][:np.asarray(X).shape[1]]
                    return self

                def transform(self, X):
                    X = np.asarray(X, dtype=float)
                    return np.column_stack([a * X[:, j] + b for j, (a, b) in enumerate(self.params_)])

                def fit_transform(self, X, y=None):
                    return self.fit(X).transform(X)
            scaler = PickScaler() if cfg.get("roundtrip") else RealTagScaler()
        PickRec.STATE = dict(log=log, table=table, rid=rid)
        model = Model(RecProba(7, cfg["proba"]) if cfg.get("proba") else (PickRec(7) if cfg.get("roundtrip") else Rec(7)), scaler=scaler, train_fdr=fdr, max_iter=cfg["iters"], direction=cfg.get("direction"), shuffle=bool(inp["shuffle"]),
                      rng=Scripted(inp.get("perms") or []), override=True)
        model.fit(psms)
        if cfg.get("refit"):
            model.fit(psms)
        df2 = df[(["F"] if twin else []) + ["f", "spec", "Label", "pep", "rowid"]]
        psms2 = LinearPsmDataset(df2, target_column="Label", spectrum_columns="spec", peptide_column="pep", feature_columns=(["F"] if twin else []) + ["f", "rowid"], copy_data=True)
        pred = model.predict(psms2)
        if cfg.get("again"):
            psms_a = LinearPsmDataset(df, target_column="Label", spectrum_columns="spec", peptide_column="pep", feature_columns=list(FEATS) + (["F"] if twin else []), copy_data=True)
            pred = model.predict(psms_a)
        rt_violation = None
        if cfg.get("roundtrip"):
            import tempfile
            from pathlib import Path
            model.rng = 1  # the scripted generator of the replay is a local class; a model is saved with an ordinary one
            with tempfile.TemporaryDirectory(prefix="verif_c12_") as d:
                try:
                    model.save(Path(d) / "model.pkl")
                    loaded = mokapot.load_model(Path(d) / "model.pkl")
                    psms3 = LinearPsmDataset(df[["spec", "Label", "pep", "rowid", "f"]], target_column="Label", spectrum_columns="spec", peptide_column="pep", feature_columns=["rowid", "f"], copy_data=True)
                    pred2 = loaded.predict(psms3)
                    if len(pred2) != len(pred) or not np.allclose(np.asarray(pred2, dtype=float), np.asarray(pred, dtype=float), atol=1e-12):
                        rt_violation = "the model saved and loaded again predicts %s, the model itself predicted %s" % (np.asarray(pred2).tolist(), np.asarray(pred).tolist())
                    elif len(log["scored"]) >= 2 and (log["scored"][-1].shape != log["scored"][-2].shape or not np.allclose(log["scored"][-1], log["scored"][-2], atol=1e-12)):
                        rt_violation = "the estimator of the model saved and loaded again is handed %s, the estimator of the model itself was handed %s for the same PSMs" % (log["scored"][-1].tolist(), log["scored"][-2].tolist())
                except Exception as ex:
                    rt_violation = "save / load_model / predict of the re-loaded model raised %r" % (ex,)
    except (ValueError, RuntimeError) as ex:
        msg = str(ex)
        if ("No target PSMs" in msg or "No decoy PSMs" in msg or "No PSMs accepted at train_fdr" in msg or "No PSMs found below the 'eval_fdr'" in msg
                or "Model performs worse after training" in msg):
            return dict(exception=type(ex).__name__, violation=_check_fits(log, n, tg, f, fdr, table, rid, a1, b1))
        return dict(exception=repr(ex), violation="raised %r" % (ex,))
    except Exception as ex:
        return dict(exception=repr(ex), violation="raised %r" % (ex,))
    v = _check_fits(log, n, tg, f, fdr, table, rid, a1, b1)
    if v:
        return dict(violation=v)
    if rt_violation:
        return dict(violation=rt_violation)
    Xp = log["scored"][-2 if cfg.get("roundtrip") and len(log["scored"]) >= 2 else -1]
    for j in range(n):
        if twin and (len(Xp[j]) != 3 or abs(float(Xp[j][2]) - g[j]) > 1e-9):
            return dict(violation="predict: feature 'F' of PSM %d reached the estimator as %s, the PSM's own value is %r (features 'f' and 'F' differ only in case; 'f' is %r)" % (j, Xp[j].tolist(), g[j], f[j]))
        if rid(Xp[j][0]) != j or abs(float(Xp[j][1]) - (a1 * f[j] + b1)) > 1e-9:
            return dict(violation="predict: the estimator did not receive PSM %d's features selected by name and scaled with their own parameters: got %s, expected %s" % (j, Xp[j].tolist(), [a0 * j + b0, a1 * f[j] + b1]))
    return dict(outputs=None, violation=None)


def _check_fits(log, n, tg, f, fdr, table, rid=int, a1=1, b1=0):
    prev = None
    for k, (X, y) in enumerate(log["fits"]):
        ids = [rid(r[0]) for r in X]
        for j, i in enumerate(ids):
            if i < 0 or i >= n:
                return "fit %d: row %s is not a PSM's feature row" % (k, X[j].tolist())
            if abs(float(X[j][1]) - (a1 * f[i] + b1)) > 1e-9:
                return "fit %d: feature row of PSM %d is %r, expected %r" % (k, i, float(X[j][1]), f[i])
            if (y[j] == 1) != tg[i] or y[j] not in (0.0, 1.0):
                return "fit %d: PSM %d (target=%s) was given label %r (rows %s labels %s)" % (k, i, tg[i], float(y[j]), ids, y.tolist())
        for i in range(n):
            if not tg[i] and i not in ids:
                return "fit %d: decoy %d missing from the training rows %s" % (k, i, ids)
        if prev is not None:
            q = spec.conc_q([Fraction(x) for x in prev], tg, True)
            lab = spec.conc_labels(q, tg, Fraction(fdr))
            for i in range(n):
                if tg[i] and lab[i] is not None and (i in ids) != (lab[i] == 1):
                    return "fit %d: target %d %s although q=%s at train_fdr=%r (previous scores %s)" % (k, i, "present" if i in ids else "absent", q[i], fdr, prev)
        prev = [table.get((k + 1, i), 0.0) for i in range(n)]
    return None


REAL = {"fit": real_fit}
