"""C13 - chunked table reading equals whole reading; writers lose and reorder nothing.

Real code executed symbolically: every reader class of mokapot.tabular_data / mokapot.streaming
(CSVFileReader, ParquetFileReader, DataFrameReader, ColumnMappedReader, JoinedTabularDataReader,
ComputedTabularDataReader) and every writer (CSVFileWriter, ParquetFileWriter, BufferedWriter with
DataFrame and Dicts buffers); pandas.read_csv / DataFrame.to_csv / pyarrow are the VFS-backed
contracts of symx.vfs (codecs trusted)."""
import itertools
import os

ID = "C13"
COLS = ["a", "b", "c"]


def setup():
    from symx import world, symnp, sympd, vfs
    world.import_mokapot_patched()
    S = world.mod("mokapot.streaming")
    T = world.mod("mokapot.tabular_data")
    world.rebind(S, np=symnp, pd=sympd, pa=vfs.pa_stub)
    world.rebind(T, np=symnp, pd=sympd, pq=vfs.pq_stub, pa=vfs.pa_stub, open=vfs.open_text)
    return S, T


def preflight(tier):
    from symx import vfs
    sizes = vfs.probe_parquet_batches()
    return None


def _table(ctx, n, missing=False):
    import z3
    from symx import sympd
    from symx.core import SNum, SBool
    a = [SNum(z3.Real("a%d" % i)) for i in range(n)]
    if missing:
        # a numeric column of a text file with missing cells (empty fields): missing iff the symbolic bit is set
        a = [sympd.MaybeNA(SBool(z3.Bool("a%d_missing" % i)), x) for i, x in enumerate(a)]
    c = [SBool(z3.Bool("c%d" % i)) for i in range(n)]
    b = ["str%d" % i for i in range(n)]
    return sympd.DataFrame({"a": a, "b": b, "c": c}), dict(a=a, b=b, c=c)


def _cell_eq(x, y):
    import z3
    from symx import core, sympd, vfs
    if isinstance(x, vfs.RawText) or isinstance(y, vfs.RawText):
        return z3.BoolVal(x is y)            # text where a parsed value (or NaN) is expected
    if isinstance(x, sympd.MaybeNA) or isinstance(y, sympd.MaybeNA):
        if not (isinstance(x, sympd.MaybeNA) and isinstance(y, sympd.MaybeNA)):
            return z3.BoolVal(False)
        return z3.And(core.zbool(x.na) == core.zbool(y.na), z3.Or(core.zbool(x.na), core._z(x.value) == core._z(y.value)))
    if isinstance(x, core.Sym) or isinstance(y, core.Sym):
        try:
            return core._z(x) == core._z(y)
        except Exception:
            return z3.BoolVal(False)
    return z3.BoolVal(type(x) == type(y) and x == y)


COLUMN_CHOICES = [None, ["a", "b", "c"], ["c", "a"], ["b"], ["c", "b", "a"]]


def sym_reader(ctx, cfg):
    import z3
    from symx import vfs, sympd, core
    from symx.core import PathOutcome, Unsupported, SNum
    S, T = setup()
    n, kind = cfg["n"], cfg["kind"]
    vfs.reset()
    df, cells = _table(ctx, n, bool(cfg.get("missing")))
    names = list(COLS)
    if kind == "frame":
        reader = T.DataFrameReader(df)
    elif kind in ("csv", "parquet"):
        p = vfs.VPath("/vfs/t.csv" if kind == "csv" else "/vfs/t.parquet")
        vfs.put(p, df)
        reader = T.TabularDataReader.from_path(p)
    elif kind in ("mapped", "mapped_csv"):
        cmap = {"a": "A", "c": "C"}
        if kind == "mapped":
            reader = T.ColumnMappedReader(T.DataFrameReader(df), cmap)
        else:
            p = vfs.VPath("/vfs/t.tab")
            vfs.put(p, df)
            reader = T.TabularDataReader.from_path(p, column_map=cmap)
        names = ["A", "b", "C"]
        cells = dict(A=cells["a"], b=cells["b"], C=cells["c"])
    elif kind == "joined":
        reader = S.JoinedTabularDataReader([T.DataFrameReader(df[["a"]]), T.DataFrameReader(df[["b", "c"]])])
    elif kind == "computed":
        reader = S.ComputedTabularDataReader(T.DataFrameReader(df), "d", "float", lambda d: d["a"] + 1)
        names = ["a", "b", "c", "d"]
        cells = dict(cells, d=[x + 1 for x in cells["a"]])
    else:
        raise ValueError(kind)
    ren = dict(zip(COLS, names))
    choices = [None if c is None else [ren[x] for x in c] for c in COLUMN_CHOICES]
    if kind == "computed":
        choices = choices + [["d", "a"], ["a", "b", "c", "d"]]
    ci = int(ctx.fresh_int("column_choice", 0, len(choices) - 1))
    columns = choices[ci]
    cs = int(ctx.fresh_int("chunk_size", 1, n + 1))
    inputs = dict(a=cells.get("a", cells.get("A")), c=cells.get("c", cells.get("C")), chunk_size=cs, columns=columns)
    try:
        got_names = reader.get_column_names()
        whole = reader.read(columns=columns)
        chunks = list(reader.get_chunked_data_iterator(chunk_size=cs, columns=columns))
    except Unsupported:
        raise
    except Exception as ex:
        return PathOutcome([], inputs, None, "exc", note="%s:%s [columns=%s]" % (type(ex).__name__, str(ex)[:60], columns))
    want = names if columns is None else columns
    props = [("column_names", z3.BoolVal(got_names == names)),
             ("whole_columns_in_requested_order", z3.BoolVal(list(whole.columns) == want)),
             ("whole_rows", z3.BoolVal(len(whole) == n)),
             ("chunk_count", z3.BoolVal(len(chunks) == (n + cs - 1) // cs or (n == 0 and len(chunks) == 1)))]
    if list(whole.columns) == want and len(whole) == n:
        for col in want:
            for i in range(n):
                props.append(("whole[%s][%d]" % (col, i), _cell_eq(whole._c[col][i], cells[col][i])))
    pos = 0
    for k, ch in enumerate(chunks):
        ok = list(ch.columns) == want and (len(ch) == cs or (k == len(chunks) - 1 and len(ch) <= cs))
        props.append(("chunk%d_shape" % k, z3.BoolVal(ok)))
        props.append(("chunk%d_index_continues" % k, z3.BoolVal(list(ch.index) == list(range(pos, pos + len(ch))))))
        if ok:
            for col in want:
                for i in range(len(ch)):
                    if pos + i < n:
                        props.append(("chunk%d[%s][%d]" % (k, col, i), _cell_eq(ch._c[col][i], cells[col][pos + i])))
        pos += len(ch)
    props.append(("chunks_cover_all_rows", z3.BoolVal(pos == n)))
    return PathOutcome(props, inputs, None)


def _splits(n):
    """all compositions of n into positive parts, plus variants with an empty append"""
    out = []
    for k in range(1, n + 1):
        for cuts in itertools.combinations(range(1, n), k - 1):
            b = [0] + list(cuts) + [n]
            out.append([y - x for x, y in zip(b, b[1:])])
    return out


def sym_writer(ctx, cfg):
    import z3
    from symx import vfs, sympd, core
    from symx.core import PathOutcome, Unsupported
    S, T = setup()
    n, kind = cfg["n"], cfg["kind"]
    vfs.reset()
    df, cells = _table(ctx, n)
    cols = list(cfg.get("cols") or COLS)       # column names (e.g. one that the CSV rules would quote)
    if cols != COLS:
        df = df.rename(columns=dict(zip(COLS, cols)))
        cells = {new: cells[old] for old, new in zip(COLS, cols)}
    splits = _splits(n) if n else [[]]
    si = int(ctx.fresh_int("append_split", 0, len(splits) - 1))
    parts = splits[si]
    ext = ".parquet" if "parquet" in kind else ".psms"
    path = vfs.VPath("/vfs/out" + ext)
    types = ["float", "str", "bool"]
    if ext == ".parquet":
        types = [vfs.pa_stub.float64(), vfs.pa_stub.string(), vfs.pa_stub.bool_()]
    bs = 0
    btype = T.TableType.DataFrame
    if "buffered" in kind:
        bs = int(ctx.fresh_int("buffer_size", 2, max(2, n)))
        btype = T.TableType.Dicts if "dicts" in kind else T.TableType.DataFrame
    stale = cfg.get("stale")
    if stale:
        vfs.put(path, sympd.DataFrame({"a": [99], "b": ["old"], "c": [True]}))
    inputs = dict(a=cells["a"], c=cells["c"], parts=parts, buffer_size=bs, stale=bool(stale))
    try:
        w = T.TabularDataWriter.from_suffix(path, list(cols), buffer_size=bs, buffer_type=btype, column_types=types)
        w.initialize()
        pos = 0
        for k, ln in enumerate(parts):
            piece = df.iloc[pos:pos + ln]
            if cfg.get("reorder") and k == len(parts) - 1:
                piece = piece[["c", "a", "b"]]  # the declared columns, in another order
            if btype == T.TableType.Dicts and bs > 1:
                recs = piece.to_dict(orient="records")
                w.append_data(recs[0] if len(recs) == 1 and cfg.get("single_dict") else recs)
            else:
                w.append_data(piece)
            pos += ln
        w.finalize()
        back = w.get_associated_reader().read()
    except Unsupported:
        raise
    except ValueError as ex:
        if cfg.get("reorder") and parts:
            # refusing a frame whose columns are not in the declared order is fine; accepting it and
            # writing the values under other headers is not
            return PathOutcome([], inputs, None, "legit_exc", note="ValueError(reordered frame refused)")
        return PathOutcome([], inputs, None, "exc", note="%s:%s" % (type(ex).__name__, str(ex)[:80]))
    except Exception as ex:
        return PathOutcome([], inputs, None, "exc", note="%s:%s" % (type(ex).__name__, str(ex)[:80]))
    props = [("columns", z3.BoolVal(list(back.columns) == cols)), ("row_count", z3.BoolVal(len(back) == n))]
    if list(back.columns) == cols and len(back) == n:
        for col in cols:
            for i in range(n):
                props.append(("back[%s][%d]" % (col, i), _cell_eq(back._c[col][i], cells[col][i])))
    return PathOutcome(props, inputs, None)


def harnesses(tier):
    from symx.runner import Harness
    S, T = setup()
    hs = []
    nmax = 4 if tier == "quick" else 6
    stubs = ["pandas.read_csv / DataFrame.to_csv / to_parquet / pyarrow.parquet -> VFS-backed contracts (symx.vfs); ParquetFile.iter_batches contract probed on the installed pyarrow",
             "numpy/pandas -> symnp/sympd"]
    rf = {"frame": [T.DataFrameReader.read, T.DataFrameReader.get_chunked_data_iterator],
          "csv": [T.CSVFileReader.read, T.CSVFileReader.get_chunked_data_iterator, T.TabularDataReader.from_path],
          "parquet": [T.ParquetFileReader.read, T.ParquetFileReader.get_chunked_data_iterator],
          "mapped": [T.ColumnMappedReader.read, T.ColumnMappedReader.get_chunked_data_iterator, T.ColumnMappedReader._get_orig_columns],
          "mapped_csv": [T.ColumnMappedReader.read, T.CSVFileReader.get_chunked_data_iterator],
          "joined": [S.JoinedTabularDataReader.read, S.JoinedTabularDataReader.get_chunked_data_iterator],
          "computed": [S.ComputedTabularDataReader.read, S.ComputedTabularDataReader.get_chunked_data_iterator]}
    for kind, fs in rf.items():
        for n in range(0, nmax + 1):
            hs.append(Harness("reader[%s,N=%d]" % (kind, n), dict(n=n, kind=kind), sym_reader, real="reader", functions=fs,
                              bounds=dict(rows=n, chunk_size="1..N+1", column_choices=len(COLUMN_CHOICES)), stubs=stubs,
                              assumptions=["CSV/Parquet codecs round-trip values (trusted)", "3 columns: numeric, string, bool"], sample_rate=0.3))
    for kind in ("csv", "mapped_csv"):
        for n in ((2,) if tier == "quick" else (2, 3)):
            hs.append(Harness("reader[%s,N=%d,numeric column with missing cells]" % (kind, n), dict(n=n, kind=kind, missing=True), sym_reader, real="reader", functions=rf[kind],
                              bounds=dict(rows=n, chunk_size="1..N+1", column_choices=len(COLUMN_CHOICES)), stubs=stubs + ["read_csv(na_filter=False): a column with an empty field among the rows parsed together comes back as text"],
                              assumptions=["CSV codec round-trips values (trusted)", "missing cells only in the numeric column"], sample_rate=0.3))
    wf = {"csv": [T.CSVFileWriter.initialize, T.CSVFileWriter.append_data, T.TabularDataWriter.from_suffix],
          "parquet": [T.ParquetFileWriter.initialize, T.ParquetFileWriter.append_data, T.ParquetFileWriter.finalize],
          "buffered_csv": [T.BufferedWriter.append_data, T.BufferedWriter._write_buffer, T.BufferedWriter._buffer_slice, T.BufferedWriter.finalize],
          "buffered_dicts_csv": [T.BufferedWriter.append_data, T.BufferedWriter._write_buffer],
          "buffered_parquet": [T.BufferedWriter.append_data, T.ParquetFileWriter.append_data]}
    for kind, fs in wf.items():
        for n in range(0, nmax + 2):
            hs.append(Harness("writer[%s,N=%d]" % (kind, n), dict(n=n, kind=kind), sym_writer, real="writer", functions=fs,
                              bounds=dict(rows=n, appends="every split of the rows into consecutive appends", buffer_size="2..N"), stubs=stubs,
                              assumptions=["CSV/Parquet codecs round-trip values (trusted)"], sample_rate=0.3))
    for kind in ("csv", "parquet", "buffered_csv"):
        for n in ((2, 3) if tier == "quick" else (2, 3, 4)):
            hs.append(Harness("writer[%s,N=%d,last frame with its columns in another order]" % (kind, n), dict(n=n, kind=kind, reorder=True), sym_writer, real="writer", functions=wf[kind] + [T.TabularDataWriter.check_valid_data],
                              bounds=dict(rows=n), stubs=stubs, assumptions=["a frame whose columns are the declared ones in another order may be refused (ValueError) or written correctly, never written under the wrong headers"], sample_rate=0.3,
                              validate_exc=False, expect_reach=False))  # on the current tree the text writer refuses every such frame
    hs.append(Harness("writer[csv,N=1,a column name in double quotes]", dict(n=1, kind="csv", cols=["a", '"b"', "c"]), sym_writer, real="writer", functions=wf["csv"],
                      stubs=stubs + ["plain open(path, 'w') -> VFS text file whose header line is parsed by the csv rules"], assumptions=["column names: a, \"b\" (with the quotes), c"]))
    hs.append(Harness("writer[csv,N=2,stale file present]", dict(n=2, kind="csv", stale=True), sym_writer, real="writer", functions=wf["csv"], stubs=stubs))
    hs.append(Harness("writer[buffered_dicts_csv,N=3,single dict appends]", dict(n=3, kind="buffered_dicts_csv", single_dict=True), sym_writer, real="writer", functions=wf["buffered_dicts_csv"], stubs=stubs))
    return hs


# ------------------------------------------------------------------ concrete --
def _real_table(inp):
    import pandas as pd
    n = len(inp["a"])
    return pd.DataFrame({"a": [float("nan") if x is None else float(x) for x in inp["a"]], "b": ["str%d" % i for i in range(n)], "c": [bool(x) for x in inp["c"]]})


def _same(df, exp, want):
    if list(df.columns) != want:
        return "columns %s, expected %s" % (list(df.columns), want)
    if len(df) != len(exp):
        return "%d rows, expected %d" % (len(df), len(exp))
    for c in want:
        g = list(df[c])
        e = list(exp[c])
        for x, y in zip(g, e):
            if isinstance(y, float) and y != y:
                if not (isinstance(x, float) and x != x):
                    return "column %s: %s vs %s (a missing cell must stay missing)" % (c, g, e)
            elif isinstance(y, float):
                if isinstance(x, str) or x != x or abs(float(x) - y) > 1e-12 * max(1, abs(y)):
                    return "column %s: %s vs %s" % (c, g, e)
            elif (str(x) != str(y)) if isinstance(y, str) else (bool(x) != bool(y)):
                return "column %s: %s vs %s" % (c, g, e)
    return None


def real_reader(cfg, inp):
    import tempfile
    from pathlib import Path
    import pandas as pd
    import mokapot.streaming as S
    import mokapot.tabular_data as T
    df = _real_table(inp)
    n, kind = len(df), cfg["kind"]
    exp = df.copy()
    names = list(COLS)
    with tempfile.TemporaryDirectory(prefix="verif_c13_") as d:
        if kind == "frame":
            reader = T.DataFrameReader(df)
        elif kind == "csv":
            p = Path(d) / "t.csv"
            df.to_csv(p, sep="\t", index=False)
            reader = T.TabularDataReader.from_path(p)
        elif kind == "parquet":
            p = Path(d) / "t.parquet"
            import pyarrow as pa
            import pyarrow.parquet as pq
            # odd row groups
            w = pq.ParquetWriter(p, pa.Schema.from_pandas(df, preserve_index=False))
            pos = 0
            for ln in (1, 2, 1, 3, 2, 5):
                if pos < n:
                    w.write_table(pa.Table.from_pandas(df.iloc[pos:pos + ln], preserve_index=False))
                    pos += ln
            if n == 0:
                w.write_table(pa.Table.from_pandas(df, preserve_index=False))
            w.close()
            reader = T.TabularDataReader.from_path(p)
        elif kind in ("mapped", "mapped_csv"):
            cmap = {"a": "A", "c": "C"}
            if kind == "mapped":
                reader = T.ColumnMappedReader(T.DataFrameReader(df), cmap)
            else:
                p = Path(d) / "t.tab"
                df.to_csv(p, sep="\t", index=False)
                reader = T.TabularDataReader.from_path(p, column_map=cmap)
            names = ["A", "b", "C"]
            exp = df.rename(columns=cmap)
        elif kind == "joined":
            reader = S.JoinedTabularDataReader([T.DataFrameReader(df[["a"]]), T.DataFrameReader(df[["b", "c"]])])
        else:
            import numpy as np
            reader = S.ComputedTabularDataReader(T.DataFrameReader(df), "d", np.dtype("float64"), lambda x: x["a"] + 1)
            names = ["a", "b", "c", "d"]
            exp = df.assign(d=df["a"] + 1)
        columns, cs0 = inp["columns"], int(inp["chunk_size"])
        want = names if columns is None else columns
        if kind == "parquet" and n == 0:
            return dict(skip=True)
        # the real file has a row-group layout the symbolic table does not know: try every chunk size for Parquet
        for cs in ([cs0] if kind != "parquet" else [cs0] + [c for c in range(1, n + 2) if c != cs0]):
            v = _real_reader_once(reader, kind, columns, cs, exp, want, n)
            if v is not None:
                return v
    return dict(outputs=None, violation=None)


def _real_reader_once(reader, kind, columns, cs, exp, want, n):
    import pandas as pd
    if True:
        try:
            whole = reader.read(columns=columns)
            chunks = list(reader.get_chunked_data_iterator(chunk_size=cs, columns=columns))
        except Exception as ex:
            return dict(exception=repr(ex), violation="%s reader raised %r for columns=%s chunk_size=%d" % (kind, ex, columns, cs))
        v = _same(whole, exp, want)
        if v:
            return dict(violation="read(): " + v)
        if chunks:
            cat = pd.concat(chunks)
            v = _same(cat, exp, want)
            if v:
                return dict(violation="concat(chunks): " + v)
            if list(cat.index) != list(range(n)):
                return dict(violation="row index does not continue across chunks: %s" % list(cat.index))
            if any(len(c) > cs for c in chunks):
                return dict(violation="chunk sizes %s for chunk_size %d" % ([len(c) for c in chunks], cs))
        elif n:
            return dict(violation="no chunks for %d rows" % n)
    return None


def real_writer(cfg, inp):
    import tempfile
    from pathlib import Path
    import numpy as np
    import pyarrow as pa
    import mokapot.tabular_data as T
    df = _real_table(inp)
    cols = list(cfg.get("cols") or COLS)
    df = df.rename(columns=dict(zip(COLS, cols)))
    n, kind = len(df), cfg["kind"]
    with tempfile.TemporaryDirectory(prefix="verif_c13_") as d:
        ext = ".parquet" if "parquet" in kind else ".psms"
        path = Path(d) / ("out" + ext)
        types = [np.dtype("float64"), np.dtype("O"), np.dtype("bool")]
        if ext == ".parquet":
            types = [pa.float64(), pa.string(), pa.bool_()]
        bs = int(inp["buffer_size"])
        btype = T.TableType.Dicts if "dicts" in kind else T.TableType.DataFrame
        if inp.get("stale"):
            path.write_text("a\tb\tc\n99\told\tTrue\n")
        try:
            w = T.TabularDataWriter.from_suffix(path, list(cols), buffer_size=bs, buffer_type=btype, column_types=types)
            w.initialize()
            pos = 0
            for k, ln in enumerate(inp["parts"]):
                piece = df.iloc[pos:pos + ln]
                if cfg.get("reorder") and k == len(inp["parts"]) - 1:
                    piece = piece[["c", "a", "b"]]
                if btype == T.TableType.Dicts and bs > 1:
                    recs = piece.to_dict(orient="records")
                    w.append_data(recs[0] if len(recs) == 1 and cfg.get("single_dict") else recs)
                else:
                    w.append_data(piece)
                pos += ln
            w.finalize()
            back = w.get_associated_reader().read()
        except ValueError as ex:
            if cfg.get("reorder") and inp["parts"]:
                return dict(exception="ValueError", violation=None)
            return dict(exception=repr(ex), violation="%s writer raised %r (appends %s, buffer %d)" % (kind, ex, inp["parts"], bs))
        except Exception as ex:
            return dict(exception=repr(ex), violation="%s writer raised %r (appends %s, buffer %d)" % (kind, ex, inp["parts"], bs))
        if n == 0 and ext == ".psms":
            v = None if list(back.columns) == cols and len(back) == 0 else "empty table read back as %s rows / %s" % (len(back), list(back.columns))
        else:
            v = _same(back, df, cols)
    return dict(outputs=None, violation=("read back differs (appends %s, buffer %d): " % (inp["parts"], bs) + v) if v else None)


REAL = {"reader": real_reader, "writer": real_writer}
