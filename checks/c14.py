"""C14 - k-way merge returns every row once, unmodified, globally sorted by score;
the table merger rejects unsorted inputs.

Real code executed symbolically: mokapot.utils.merge_sort, get_next_row, csv_row_iterator
(files on the VFS) and mokapot.streaming.MergedTabularDataReader (get_row_iterator, read,
get_chunked_data_iterator, merge_readers) over the real DataFrameReader."""
import itertools
import os

ID = "C14"


def setup():
    from symx import world, symnp, sympd, vfs
    world.import_mokapot_patched()
    U = world.mod("mokapot.utils")
    S = world.mod("mokapot.streaming")
    T = world.mod("mokapot.tabular_data")
    _float = float
    world.rebind(U, np=symnp, pd=sympd, pq=vfs.pq_stub, TabularDataReader=vfs.VReader,
                 float=lambda x: x if isinstance(x, __import__("symx").core.Sym) else _float(x))
    world.rebind(S, np=symnp, pd=sympd)
    world.rebind(T, np=symnp, pd=sympd)
    return U, S, T


def _mk(ctx, lens, sorted_desc):
    import z3
    from symx.core import SNum
    zs = [[z3.Real("s%d_%d" % (a, b)) for b in range(n)] for a, n in enumerate(lens)]
    if sorted_desc is not None:
        for row in zs:
            for x, y in zip(row, row[1:]):
                ctx.assume(x >= y if sorted_desc else x <= y)
    ids, k = [], 0
    for n in lens:
        ids.append(list(range(k, k + n)))
        k += n
    return zs, ids


def _oracle(out_rows, zs, ids, desc, getter):
    """props: permutation of all rows, each unmodified, globally monotone"""
    import z3
    from symx import core
    flat = {i: (zs[a][b], "payload%d" % i) for a, row in enumerate(ids) for b, i in enumerate(row)}
    got_ids = [getter(r, "id") for r in out_rows]
    props = [("every_row_exactly_once", z3.BoolVal(sorted(got_ids) == sorted(flat)))]
    for r in out_rows:
        i = getter(r, "id")
        if i in flat:
            props.append(("row%d_unmodified" % i, z3.And(core._z(getter(r, "score")) == flat[i][0], z3.BoolVal(getter(r, "payload") == flat[i][1]))))
    sc = [core._z(getter(r, "score")) for r in out_rows]
    for x, y in zip(sc, sc[1:]):
        props.append(("monotone", x >= y if desc else x <= y))
    return props


def sym_merge_sort(ctx, cfg):
    import z3
    from symx import vfs, sympd, core
    from symx.core import SNum, PathOutcome, Unsupported
    U, S, T = setup()
    lens = cfg["lens"]
    vfs.reset()
    zs, ids = _mk(ctx, lens, True)
    paths = []
    for a, n in enumerate(lens):
        p = vfs.VPath("/vfs/scores_metadata_%d%s" % (a, cfg.get("suffix", ".pin")))
        vfs.put(p, sympd.DataFrame({"id": ids[a], "score": [SNum(z) for z in zs[a]], "payload": ["payload%d" % i for i in ids[a]]}))
        paths.append(p)
    cs = int(ctx.fresh_int("merge_sort_chunk_size", 1, max(lens) + 1))
    U.MERGE_SORT_CHUNK_SIZE = cs
    inputs = dict(scores=[[SNum(z) for z in row] for row in zs], chunk_size=cs)
    try:
        rows = list(U.merge_sort(paths, score_column="score"))
    except Unsupported:
        raise
    except Exception as ex:
        return PathOutcome([], inputs, None, "exc", note=type(ex).__name__ + ":" + str(ex)[:80])
    props = _oracle(rows, zs, ids, True, lambda r, k: r[k])
    return PathOutcome(props, inputs, dict(ids=[r["id"] for r in rows]) if _no_ties(ctx, zs) else None)


def _no_ties(ctx, zs):
    return False  # with ties any order among equal scores is acceptable: outputs are not compared


def sym_merged_reader(ctx, cfg):
    import z3
    from symx import sympd, core
    from symx.core import SNum, PathOutcome, Unsupported
    U, S, T = setup()
    lens, desc, mode, assume_sorted = cfg["lens"], cfg["desc"], cfg["mode"], cfg["sorted"]
    zs, ids = _mk(ctx, lens, desc if assume_sorted else None)
    readers = []
    decs = None
    if cfg.get("csv"):
        # text inputs: every score is spelt with or without a decimal point; pandas infers int64 / float64 per CHUNK
        from symx import vfs
        vfs.reset()
        decs = [[z3.Bool("dec_%d_%d" % (a, i)) for i in range(n)] for a, n in enumerate(lens)]
        for a, n in enumerate(lens):
            df = sympd.DataFrame({"id": ids[a], "score": [vfs.text_number(z, d, ctx) for z, d in zip(zs[a], decs[a])], "payload": ["payload%d" % i for i in ids[a]]})
            p = vfs.VPath("/vfs/in%d.csv" % a)
            vfs.put(p, df)
            readers.append(T.TabularDataReader.from_path(p))
    else:
        for a, n in enumerate(lens):
            df = sympd.DataFrame({"id": ids[a], "score": [SNum(z) for z in zs[a]], "payload": ["payload%d" % i for i in ids[a]]})
            readers.append(T.DataFrameReader(df))
    cs = int(ctx.fresh_int("reader_chunk_size", 1, max(lens) + 1))
    inputs = dict(scores=[[SNum(z) for z in row] for row in zs], chunk_size=cs, decimal_point=[[core.SBool(d) for d in row] for row in decs] if decs else None)
    getter = lambda r, k: r[k]
    try:
        if mode == "dicts":
            m = S.MergedTabularDataReader(readers, "score", descending=desc, reader_chunk_size=cs)
            rows = list(m.get_row_iterator(row_type=T.TableType.Dicts))
        elif mode == "frames":
            m = S.MergedTabularDataReader(readers, "score", descending=desc, reader_chunk_size=cs)
            rows = m.read().to_dict(orient="records")
        elif mode == "chunks":
            m = S.MergedTabularDataReader(readers, "score", descending=desc, reader_chunk_size=cs)
            oc = int(ctx.fresh_int("out_chunk_size", 1, sum(lens) + 1))
            rows = []
            for chunk in m.get_chunked_data_iterator(chunk_size=oc, columns=["id", "score", "payload"]):
                if len(chunk) > oc or len(chunk) == 0:
                    return PathOutcome([("chunk_size_respected", z3.BoolVal(False))], inputs, None)
                rows += chunk.to_dict(orient="records")
        else:
            rows = []
            for chunk in S.merge_readers(readers, "score", descending=desc, reader_chunk_size=cs):
                rows += chunk.to_dict(orient="records")
    except Unsupported:
        raise
    except ValueError as ex:
        if not assume_sorted and ("should be descending" in str(ex) or "should be ascending" in str(ex)):
            inv = z3.Or([(x < y if desc else x > y) for row in zs for x, y in zip(row, row[1:])] or [z3.BoolVal(False)])
            return PathOutcome([("rejected_only_if_unsorted", inv)], inputs, None, note="ValueError(unsorted)")
        return PathOutcome([], inputs, None, "exc", note="ValueError:" + str(ex)[:80])
    except AssertionError as ex:
        if cfg.get("csv") and "Column types do not match" in str(ex):
            # schema precondition of the merger (an assert in its constructor): the inputs' first rows must be typed
            # alike - text inputs whose first two scores are integers in one file and floats in another are refused
            return PathOutcome([], inputs, None, "legit_exc", note="AssertionError(column types of the inputs differ)")
        return PathOutcome([], inputs, None, "exc", note=type(ex).__name__ + ":" + str(ex)[:80])
    except Exception as ex:
        return PathOutcome([], inputs, None, "exc", note=type(ex).__name__ + ":" + str(ex)[:80])
    props = _oracle(rows, zs, ids, desc, getter)
    return PathOutcome(props, inputs, None)


def _tuples(kmax, nmax, total):
    out = []
    for k in range(1, kmax + 1):
        for t in itertools.product(range(1, nmax + 1), repeat=k):
            if sum(t) <= total:
                out.append(list(t))
    return out


def harnesses(tier):
    from symx.runner import Harness
    U, S, T = setup()
    hs = []
    stubs = ["numpy/pandas -> symnp/sympd", "TabularDataReader.from_path -> VFS reader (CSV chunk contract)", "float() shadowed in mokapot.utils"]
    if tier == "quick":
        ms = _tuples(3, 3, 6)
        mr = _tuples(3, 3, 5)
    else:
        ms = _tuples(4, 3, 7)
        mr = _tuples(4, 3, 6)
    for lens in ms:
        hs.append(Harness("merge_sort%s" % lens, dict(lens=lens), sym_merge_sort, real="merge_sort",
                          functions=[U.merge_sort, U.get_next_row, U.csv_row_iterator], bounds=dict(inputs=len(lens), rows=lens, chunk="1..max+1"), stubs=stubs,
                          assumptions=["each input is sorted by score, non-increasing (ties allowed)", "every input has >= 1 row"]))
    for lens in ([[2, 1], [2, 2], [3, 1], [1, 2, 1]] if tier == "quick" else [[2, 1], [2, 2], [3, 2], [1, 2, 1], [2, 2, 2]]):
        hs.append(Harness("merge_sort%s,parquet" % lens, dict(lens=lens, suffix=".parquet"), sym_merge_sort, real="merge_sort",
                          functions=[U.merge_sort, U.get_next_row, U.parquet_row_iterator], bounds=dict(inputs=len(lens), rows=lens, chunk="1..max+1"),
                          stubs=stubs + ["pyarrow ParquetFile.iter_batches -> VFS contract (probed)"],
                          assumptions=["each input is sorted by score, non-increasing (ties allowed)", "every input has >= 1 row"]))
    for lens in mr:
        for desc in (True, False):
            for mode in ("dicts", "frames"):
                hs.append(Harness("merged_reader%s,%s,%s" % (lens, "desc" if desc else "asc", mode), dict(lens=lens, desc=desc, mode=mode, sorted=True),
                                  sym_merged_reader, real="merged_reader", functions=[S.MergedTabularDataReader.get_row_iterator, S.MergedTabularDataReader.read, T.DataFrameReader.get_chunked_data_iterator],
                                  bounds=dict(inputs=len(lens), rows=lens), stubs=stubs, assumptions=["each input is sorted as declared (ties allowed)", "every input has >= 1 row"]))
    for lens in ([[2, 2], [3, 1]] if tier == "quick" else [[2, 2], [3, 1], [3, 2], [2, 2, 1]]):
        for desc in (True, False):
            hs.append(Harness("merged_reader%s,%s,dicts,text files with scores spelt 6 or 6.0" % (lens, "desc" if desc else "asc"), dict(lens=lens, desc=desc, mode="dicts", sorted=True, csv=True),
                              sym_merged_reader, real="merged_reader", functions=[S.MergedTabularDataReader.get_row_iterator, T.CSVFileReader.get_chunked_data_iterator],
                              bounds=dict(inputs=len(lens), rows=lens), stubs=stubs + ["pandas.read_csv infers int64/float64 per chunk (value dtype and rendering)"],
                              assumptions=["each input is sorted as declared (ties allowed)", "a score spelt without a decimal point is integral"], sample_rate=0.05))
    small = [l for l in mr if sum(l) <= (4 if tier == "quick" else 5)]
    for lens in small:
        for desc in (True, False):
            hs.append(Harness("merged_reader_unsorted%s,%s" % (lens, "desc" if desc else "asc"), dict(lens=lens, desc=desc, mode="dicts", sorted=False),
                              sym_merged_reader, real="merged_reader", functions=[S.MergedTabularDataReader.get_row_iterator],
                              bounds=dict(inputs=len(lens), rows=lens), stubs=stubs, assumptions=["inputs arbitrary (not assumed sorted)"]))
    for lens in ([2, 1], [2, 2]) if tier == "quick" else ([2, 1], [2, 2], [3, 2], [2, 2, 1]):
        for mode in ("chunks", "merge_readers"):
            hs.append(Harness("merged_reader%s,desc,%s" % (lens, mode), dict(lens=lens, desc=True, mode=mode, sorted=True), sym_merged_reader, real="merged_reader",
                              functions=[S.MergedTabularDataReader.get_chunked_data_iterator, S.merge_readers], bounds=dict(inputs=len(lens), rows=lens), stubs=stubs,
                              assumptions=["each input is sorted as declared (ties allowed)"]))
    return hs


# ------------------------------------------------------------------ concrete --
def _frames(inp):
    import pandas as pd
    dfs, k = [], 0
    for row in inp["scores"]:
        n = len(row)
        dfs.append(pd.DataFrame({"id": list(range(k, k + n)), "score": [float(x) for x in row], "payload": ["payload%d" % i for i in range(k, k + n)]}))
        k += n
    return dfs


def _conc_check(rows, dfs, desc):
    allrows = {int(r["id"]): (float(r["score"]), r["payload"]) for df in dfs for r in df.to_dict("records")}
    ids = [int(r["id"]) for r in rows]
    if sorted(ids) != sorted(allrows):
        return "rows %s are not a permutation of the inputs %s" % (ids, sorted(allrows))
    for r in rows:
        if (float(r["score"]), r["payload"]) != allrows[int(r["id"])]:
            return "row %s modified" % (dict(r),)
    sc = [float(r["score"]) for r in rows]
    for x, y in zip(sc, sc[1:]):
        if (x < y) if desc else (x > y):
            return "output not monotone: %s" % sc
    return None


def real_merge_sort(cfg, inp):
    import tempfile
    from pathlib import Path
    import mokapot.utils as U
    dfs = _frames(inp)
    old = U.MERGE_SORT_CHUNK_SIZE
    U.MERGE_SORT_CHUNK_SIZE = int(inp["chunk_size"])
    try:
        with tempfile.TemporaryDirectory(prefix="verif_c14_") as d:
            for ext in (".csv", ".parquet"):
                paths = []
                for a, df in enumerate(dfs):
                    p = Path(d) / ("in%d%s" % (a, ext))
                    if ext == ".csv":
                        df.to_csv(p, sep="\t", index=False)
                    else:
                        df.to_parquet(p, index=False)
                    paths.append(p)
                try:
                    rows = list(U.merge_sort(paths, score_column="score"))
                except Exception as ex:
                    return dict(exception=repr(ex), violation="merge_sort(%s) raised %r" % (ext, ex))
                v = _conc_check(rows, dfs, True)
                if v:
                    return dict(violation="merge_sort(%s): %s" % (ext, v))
    finally:
        U.MERGE_SORT_CHUNK_SIZE = old
    return dict(outputs=None, violation=None)


def real_merged_reader(cfg, inp):
    import mokapot.streaming as S
    import mokapot.tabular_data as T
    dfs = _frames(inp)
    desc, mode = cfg["desc"], cfg["mode"]
    tmpd = None
    if cfg.get("csv"):
        import tempfile
        from pathlib import Path
        tmpd = tempfile.TemporaryDirectory(prefix="verif_c14t_")
        readers = []
        for a, (df, decrow) in enumerate(zip(dfs, inp["decimal_point"])):
            t = df.copy()
            t["score"] = [repr(float(x)) if d else str(int(x)) for x, d in zip(df["score"], decrow)]
            p = Path(tmpd.name) / ("in%d.csv" % a)
            t.to_csv(p, sep="\t", index=False)
            readers.append(T.TabularDataReader.from_path(p))
    else:
        readers = [T.DataFrameReader(df) for df in dfs]
    is_sorted = all(all((x >= y) if desc else (x <= y) for x, y in zip(df["score"], df["score"][1:])) for df in dfs)
    try:
        m = S.MergedTabularDataReader(readers, "score", descending=desc, reader_chunk_size=int(inp["chunk_size"]))
        if mode == "dicts":
            rows = list(m.get_row_iterator(row_type=T.TableType.Dicts))
        elif mode == "frames":
            rows = m.read().to_dict("records")
        elif mode == "chunks":
            rows = []
            for oc in range(1, sum(len(d) for d in dfs) + 2):
                rows = []
                for chunk in m.get_chunked_data_iterator(chunk_size=oc, columns=["id", "score", "payload"]):
                    if len(chunk) > oc or len(chunk) == 0:
                        return dict(violation="chunk of %d rows for chunk_size %d" % (len(chunk), oc))
                    rows += chunk.to_dict("records")
                v = _conc_check(rows, dfs, desc)
                if v:
                    return dict(violation="chunked(%d): %s" % (oc, v))
        else:
            rows = []
            for chunk in S.merge_readers(readers, "score", descending=desc, reader_chunk_size=int(inp["chunk_size"])):
                rows += chunk.to_dict("records")
    except ValueError as ex:
        if not is_sorted and "should be" in str(ex):
            return dict(exception="ValueError", violation=None)
        return dict(exception=repr(ex), violation="raised %r on %s inputs" % (ex, "sorted" if is_sorted else "unsorted"))
    except AssertionError as ex:
        if cfg.get("csv") and "Column types do not match" in str(ex):
            return dict(exception="AssertionError", violation=None)
        return dict(exception=repr(ex), violation="raised %r" % (ex,))
    except Exception as ex:
        return dict(exception=repr(ex), violation="raised %r" % (ex,))
    finally:
        if tmpd is not None:
            tmpd.cleanup()
    return dict(outputs=None, violation=_conc_check(rows, dfs, desc))


REAL = {"merge_sort": real_merge_sort, "merged_reader": real_merged_reader}
