"""C15 - picked protein: one entry per target/decoy protein-group pair, won by its best
unique peptide.

Real code executed symbolically: mokapot.picked_protein.picked_protein, strip_peptides (real
`re` on concrete notation variants chosen by fork), group_with_decoys, utils.groupby_max;
in the 'fasta' harnesses the Proteins object is produced by the real read_fasta /
_group_proteins (digest stubbed), so group names are the ones mokapot really builds."""
import os
import itertools

ID = "C15"
PREFIX = "decoy_"

# notation variants of a stripped core sequence (modifications, flanking residues, termini)
NOTATIONS = [
    lambda s: s,
    lambda s: "K." + s + ".R",
    lambda s: s[:2] + "[+79.966]" + s[2:],
    lambda s: "-." + s[:1] + "(ox)" + s[1:] + "[1.5].A",
    lambda s: "n[42.01]" + s,
]


def setup():
    from symx import world, symnp, sympd
    world.import_mokapot_patched()
    PP = world.mod("mokapot.picked_protein")
    U = world.mod("mokapot.utils")
    F = world.mod("mokapot.parsers.fasta")
    world.rebind(PP, pd=sympd)
    world.rebind(U, pd=sympd, np=symnp)
    return PP, U, F


def _universe(cfg):
    """-> (proteins object factory args): peptide_map, shared, protein_map, identities
    identities: list of (stripped sequence, owner group name or None(shared)/'?'(unknown))"""
    pairs = cfg["pairs"]
    peptide_map, shared, protein_map, ident = {}, {}, {}, []
    k = 0
    for gi in range(pairs):
        stem = "xdecoy_" if cfg.get("names") == "prefix inside" else ""  # a TARGET whose name contains the decoy prefix, not at its start
        members = [stem + "P%d" % gi] if gi % 2 == 0 else [stem + "P%d" % gi, stem + "Q%d" % gi]
        tg = ", ".join(members)
        dg = ", ".join(PREFIX + m for m in members)
        for m in members:
            protein_map[m] = PREFIX + m
        for owner, n in ((tg, 2), (dg, 1)):
            for _ in range(n):
                seq = "PEPTIDE" + "ACDEFGHIKLMN"[k] + "K"
                k += 1
                peptide_map[seq] = owner
                ident.append((seq, owner))
    sh = "SHAREDPEPK"
    shared[sh] = "; ".join(sorted(set(peptide_map.values()))[:2])
    ident.append((sh, None))
    if cfg.get("unknown"):
        ident.append(("UNKNOWNPEPK", "?"))
    return peptide_map, shared, protein_map, ident


def _pair_key(group):
    """target/decoy pair of a group, by member sets (independent of member order)"""
    return frozenset(m[len(PREFIX):] if m.startswith(PREFIX) else m for m in group.split(", "))


def sym(ctx, cfg):
    import z3
    from symx import sympd, symnp, core
    from symx.core import SNum, SBool, PathOutcome, Unsupported
    PP, U, F = setup()
    from mokapot.proteins import Proteins
    N = cfg["n"]
    if cfg.get("fasta"):
        peptide_map, shared, protein_map, ident = _fasta_universe(ctx, cfg, F)
    else:
        peptide_map, shared, protein_map, ident = _universe(cfg)
    prot = Proteins(decoy_prefix=PREFIX, peptide_map=dict(peptide_map), shared_peptides=dict(shared), protein_map=dict(protein_map), has_decoys=True)
    zs = [z3.Real("s%d" % i) for i in range(N)]
    zt = [z3.Bool("t%d" % i) for i in range(N)]
    rows = []
    for i in range(N):
        k = int(ctx.fresh_int("identity%d" % i, 0, len(ident) - 1))
        seq, owner = ident[k]
        pep = NOTATIONS[(i + cfg["notation_offset"]) % len(NOTATIONS)](seq)
        rows.append((pep, seq, owner))
    if cfg.get("distinct_peptides", True):
        # the peptide-level table holds one row per distinct peptide string
        if len({r[0] for r in rows}) != N:
            raise core.Abort("duplicate peptide row")
    df = sympd.DataFrame({"Label": [SBool(z) for z in zt], "peptide": [r[0] for r in rows], "score": [SNum(z) for z in zs],
                          "PSMId": list(range(N))})
    inputs = dict(peptides=[r[0] for r in rows], scores=[SNum(z) for z in zs], labels=[SBool(z) for z in zt],
                  maps=dict(peptide_map=peptide_map, shared=shared, protein_map=protein_map))
    rng = symnp.Generator("nondet")
    try:
        out = PP.picked_protein(df, "Label", "peptide", "score", prot, rng)
    except Unsupported:
        raise
    except ValueError as ex:
        if "could be matched to proteins" in str(ex) or "decoy peptides could be mapped" in str(ex):
            unknown = sum(1 for r in rows if r[2] == "?")
            return PathOutcome([("error_only_with_unmappable_peptides", z3.BoolVal(unknown > 0))], inputs, None, note="ValueError(unmatched)")
        return PathOutcome([], inputs, None, "exc", note="ValueError:" + str(ex)[:80])
    except Exception as ex:
        return PathOutcome([], inputs, None, "exc", note=type(ex).__name__ + ":" + str(ex)[:80])
    props = []
    cols = ["mokapot protein group", "best peptide", "stripped sequence", "score", "Label"]
    props.append(("columns", z3.BoolVal(list(out.columns) == cols)))
    if list(out.columns) != cols:
        return PathOutcome(props, inputs, None)
    outrows = out.to_dict(orient="records")
    # candidates per pair
    cand = {}
    for i, (pep, seq, owner) in enumerate(rows):
        if owner not in (None, "?"):
            cand.setdefault(_pair_key(owner), []).append(i)
    props.append(("one_entry_per_pair_with_a_unique_peptide", z3.BoolVal(len(outrows) == len(cand))))
    seen = set()
    for r in outrows:
        g = r["mokapot protein group"]
        key = _pair_key(g) if isinstance(g, str) else None
        ok = key in cand and key not in seen
        props.append(("entry_is_a_pair_with_unique_peptides", z3.BoolVal(bool(ok))))
        if not ok:
            continue
        seen.add(key)
        # the entry is one of the pair's candidate rows, field by field, and has maximal score
        opts = []
        for i in cand[key]:
            same = z3.And(z3.BoolVal(r["best peptide"] == rows[i][0] and r["stripped sequence"] == rows[i][1] and g == rows[i][2]),
                          core._z(r["score"]) == zs[i], core.zbool(r["Label"]) == zt[i],
                          z3.And([zs[i] >= zs[j] for j in cand[key]]))
            opts.append(same)
        props.append(("entry_is_best_unique_peptide_of_pair", z3.Or(opts)))
    return PathOutcome(props, inputs, None)


def _fasta_universe(ctx, cfg, F):
    """Proteins object built by the REAL read_fasta on a stubbed digest: two target proteins
    with equal or nested peptide sets and their decoys, in the entry order of the cfg."""
    tsets = cfg["fasta"]["target_peps"]  # {name: [core peptides]}
    order = cfg["fasta"]["order"]
    pepsets = {}
    for n, peps in tsets.items():
        pepsets[n] = set(peps)
        pepsets[PREFIX + n] = {p[::-1][1:] + p[-1] if False else "D" + p for p in peps}
    F._parse_fasta_files = lambda files: list(order)
    F._parse_protein = lambda e: (e, e)
    F.digest = lambda seq, *a, **kw: set(pepsets[seq])
    pr = F.read_fasta("ignored", decoy_prefix=PREFIX)
    ident = [(p, g) for p, g in pr.peptide_map.items()] + [(p, None) for p in pr.shared_peptides]
    return dict(pr.peptide_map), dict(pr.shared_peptides), dict(pr.protein_map), ident


def _is_result_file(path):
    import re
    return re.fullmatch(r"(.*\.)?(targets|decoys)\.[A-Za-z_]+", os.path.basename(str(path))) is not None


def sym_confidence_proteins(ctx, cfg):
    """Protein level of the real assign_confidence(proteins=...): peptide-level rows -> picked_protein ->
    proteins file -> q-values -> targets.proteins / decoys.proteins."""
    import z3
    from symx import vfs, sympd, symnp, core
    from symx.core import SNum, SBool, PathOutcome, Unsupported
    from checks import conflib, c03, spec
    from mokapot.proteins import Proteins
    PP, U, F = setup()
    C, W, U2, T, D, Q = conflib.setup()
    vfs.reset()
    n = cfg["n"]
    peptide_map, shared, protein_map, ident = _universe(cfg)
    prot = Proteins(decoy_prefix=PREFIX, peptide_map=dict(peptide_map), shared_peptides=dict(shared), protein_map=dict(protein_map), has_decoys=True)
    ps, s = conflib.make_collection(ctx, n, 0, "bool")
    rows = []
    for i in range(n):
        k = int(ctx.fresh_int("identity%d" % i, 0, len(ident) - 1))
        seq, owner = ident[k]
        rows.append((NOTATIONS[(i + cfg["notation_offset"]) % len(NOTATIONS)](seq), seq, owner))
    if len({r[0] for r in rows}) != n:
        raise core.Abort("duplicate peptide string")
    tab = vfs.get(s["path"])
    tab["Peptide"] = [r[0] for r in rows]
    for i in range(n):  # distinct spectra: the PSM and peptide levels keep every row (competition is C03's business)
        ctx.assume(s["scan"][i] == i)
    C.CONFIDENCE_CHUNK_SIZE = U2.MERGE_SORT_CHUNK_SIZE = n + 1
    inputs = dict(peptides=[r[0] for r in rows], scores=[SNum(z) for z in s["score"]], labels=[SBool(z) for z in s["lab"]],
                  maps=dict(peptide_map=peptide_map, shared=shared, protein_map=protein_map))
    old = sympd.SAMPLE_MODE[0]
    sympd.SAMPLE_MODE[0] = cfg.get("sample", "nondet")
    before = set(vfs.listing())
    try:
        c03.run_confidence(ctx, cfg, C, [s], [ps], [symnp.SArray([SNum(z) for z in s["score"]], symnp.float64)], None, True, True, True, [None], proteins=prot)
    except Unsupported:
        raise
    except ValueError as ex:
        if "could be matched to proteins" in str(ex) or "decoy peptides could be mapped" in str(ex):
            return PathOutcome([("error_only_with_unmappable_peptides", z3.BoolVal(any(r[2] == "?" for r in rows)))], inputs, None, note="ValueError(unmatched)")
        return PathOutcome([], inputs, None, "exc", note="ValueError:" + str(ex)[:80])
    except Exception as ex:
        import traceback
        tb = traceback.extract_tb(ex.__traceback__)[-1]
        return PathOutcome([], inputs, None, "exc", note="%s:%s @%s:%d" % (type(ex).__name__, str(ex)[:60], os.path.basename(tb.filename), tb.lineno))
    finally:
        sympd.SAMPLE_MODE[0] = old
    tf, dfile = vfs.get("/vfs/out/targets.proteins"), vfs.get("/vfs/out/decoys.proteins")
    props = [("protein_files_written", z3.BoolVal(tf is not None and dfile is not None))]
    # C09: whatever this run created in the destination directory and is not a result file is an intermediate
    left = sorted(p for p in set(vfs.listing()) - before if p.startswith("/vfs/out/") and not _is_result_file(p))
    props.append(("no_intermediate_file_of_this_run_remains: %s" % left, z3.BoolVal(not left)))
    if tf is None or dfile is None:
        return PathOutcome(props, inputs, None)
    cols = ["mokapot protein group", "best peptide", "stripped sequence", "score", "q-value", "posterior_error_prob"]
    props.append(("header", z3.BoolVal(list(tf.columns) == cols and list(dfile.columns) == cols)))
    cand = {}
    for i, (pep, seq, owner) in enumerate(rows):
        if owner not in (None, "?"):
            cand.setdefault(_pair_key(owner), []).append(i)
    entries = []
    for tab_, is_t in ((tf, True), (dfile, False)):
        prev = None
        for r in tab_.to_dict(orient="records"):
            entries.append((r, is_t))
            if prev is not None:
                props.append(("protein_rows_in_non_increasing_score_order", core._z(prev) >= core._z(r["score"])))
            prev = r["score"]
    props.append(("one_entry_per_pair_with_a_unique_peptide", z3.BoolVal(len(entries) == len(cand))))
    zs, zt = s["score"], s["lab"]
    seen, chosen = set(), []
    for r, is_t in entries:
        g = r["mokapot protein group"]
        key = _pair_key(g) if isinstance(g, str) else None
        ok = key in cand and key not in seen
        props.append(("entry_is_a_pair_with_unique_peptides", z3.BoolVal(bool(ok))))
        if not ok:
            continue
        seen.add(key)
        opts = []
        for i in cand[key]:
            opts.append(z3.And(z3.BoolVal(r["best peptide"] == rows[i][0] and r["stripped sequence"] == rows[i][1] and g == rows[i][2]),
                               core._z(r["score"]) == zs[i], (zt[i] if is_t else z3.Not(zt[i])), z3.And([zs[i] >= zs[j] for j in cand[key]])))
        props.append(("entry_is_best_unique_peptide_of_pair_in_the_right_file", z3.Or(opts)))
        chosen.append((r, is_t))
    if len(chosen) == len(entries) and entries:
        # protein q-values: the C01 formula over exactly these entries
        sc = [core._z(r["score"]) for r, _ in entries]
        tg = [z3.BoolVal(t) for _, t in entries]
        qs = spec.spec_q_terms(sc, tg, True)
        for (r, _), q in zip(entries, qs):
            props.append(("protein_qvalue_over_entries", core._z(r["q-value"]) == q))
    return PathOutcome(props, inputs, None)


# ------------------------------------------------- target-only FASTA (has_decoys=False) --
# target peptides by composition class: class X spans two protein groups, class Y one
ND_TARGETS = {"ACDEK": "P0", "CADEK": "P0", "DACEK": "P1", "FGHIK": "P1"}
ND_DECOYS = ["EDCAK", "DECAK", "IHGFK", "CEDAK"]      # anagrams of class X, Y, X
ND_PMAP = {"P0": PREFIX + "P0", "P1": PREFIX + "P1"}


def _nd_allowed(seq, is_target):
    """groups a row may be mapped to: a target peptide to its group; a decoy peptide to the mirrored group of SOME
    unique target peptide of the same composition (the match is drawn at random)"""
    if is_target:
        return {ND_TARGETS[seq]} if seq in ND_TARGETS else set()
    comp = "".join(sorted(seq))
    return {PREFIX + g for t, g in ND_TARGETS.items() if "".join(sorted(t)) == comp}


def _nd_check(rows, outrows, zs, zt_vals, eq_score):
    """rows: (peptide, is_target) of the table; outrows: records returned. -> list of (name, bool or z3 term)"""
    import z3
    props = []
    valid = set(ND_TARGETS.values()) | {PREFIX + g for g in ND_TARGETS.values()}
    seen = set()
    for r in outrows:
        g = r["mokapot protein group"]
        ok = isinstance(g, str) and g in valid
        props.append(("entry_group_is_a_target_group_or_its_mirrored_decoy_group[%r]" % (g,), z3.BoolVal(bool(ok))))
        if not ok:
            continue
        key = _pair_key(g)
        props.append(("one_entry_per_pair[%s]" % sorted(key), z3.BoolVal(key not in seen)))
        seen.add(key)
        # the entry is a row of the table that may be mapped to this group, and no TARGET row of the pair
        # (their mapping is deterministic) scores higher
        opts = []
        for i, (pep, is_t) in enumerate(rows):
            if g in _nd_allowed(pep, is_t) and r["best peptide"] == pep and r["stripped sequence"] == pep and bool(zt_vals[i]) == bool(r["Label"]):
                opts.append(eq_score(r["score"], i))
        props.append(("entry_is_a_row_that_maps_to_its_group[%s]" % g, z3.Or(opts) if opts else z3.BoolVal(False)))
    for i, (pep, is_t) in enumerate(rows):
        if is_t and pep in ND_TARGETS:
            key = _pair_key(ND_TARGETS[pep])
            props.append(("pair_of_target_row_%d_has_an_entry" % i, z3.BoolVal(key in seen)))
    return props


def sym_nodecoys(ctx, cfg):
    """picked_protein with a Proteins object of a target-only FASTA, called for two peptide tables one after the
    other (one Proteins object serves every table of a run)."""
    import z3
    from symx import sympd, symnp, core, world
    from symx.core import SNum, SBool, PathOutcome, Unsupported
    PP, U, F = setup()
    PE = world.mod("mokapot.peptides")
    from mokapot.proteins import Proteins
    prot = Proteins(decoy_prefix=PREFIX, peptide_map=dict(ND_TARGETS), shared_peptides={}, protein_map=dict(ND_PMAP), has_decoys=False)
    tables = cfg["tables"]
    inputs = dict(tables=[], scores=[])
    props = []
    try:
        for k, table in enumerate(tables):
            rows = [(pep, pep in ND_TARGETS) for pep in table]
            zs = [z3.Real("s%d_%d" % (k, i)) for i in range(len(rows))]
            df = sympd.DataFrame({"Label": [r[1] for r in rows], "peptide": [r[0] for r in rows], "score": [SNum(z) for z in zs], "PSMId": list(range(len(rows)))})
            inputs["tables"].append(list(table))
            inputs["scores"].append([SNum(z) for z in zs])
            out = PP.picked_protein(df, "Label", "peptide", "score", prot, symnp.Generator("nondet"))
            outrows = out.to_dict(orient="records")
            props += [("call%d:%s" % (k + 1, n), v) for n, v in _nd_check(rows, outrows, zs, [r[1] for r in rows], lambda sc, i: core._z(sc) == zs[i])]
            # no target row of the pair beats the entry
            for r in outrows:
                g = r["mokapot protein group"]
                if isinstance(g, str):
                    for i, (pep, is_t) in enumerate(rows):
                        if is_t and pep in ND_TARGETS and _pair_key(ND_TARGETS[pep]) == _pair_key(g):
                            props.append(("call%d:entry_of_%s_not_beaten_by_target_row_%d" % (k + 1, g, i), core._z(r["score"]) >= zs[i]))
        props.append(("proteins_object_unchanged_by_the_calls", z3.BoolVal(dict(prot.peptide_map) == ND_TARGETS and dict(prot.protein_map) == ND_PMAP)))
    except Unsupported:
        raise
    except ValueError as ex:
        return PathOutcome([], inputs, None, "exc", note="ValueError:" + str(ex)[:80])
    except Exception as ex:
        return PathOutcome([], inputs, None, "exc", note=type(ex).__name__ + ":" + str(ex)[:80])
    return PathOutcome(props, inputs, None)


def real_nodecoys(cfg, inp):
    import numpy as np
    import pandas as pd
    import z3
    from mokapot.proteins import Proteins
    from mokapot.picked_protein import picked_protein
    for seed in (0, 1, 2, 3):
        np.random.seed(seed)      # match_decoy samples from the global generator
        prot = Proteins(decoy_prefix=PREFIX, peptide_map=dict(ND_TARGETS), shared_peptides={}, protein_map=dict(ND_PMAP), has_decoys=False)
        for k, (table, scores) in enumerate(zip(inp["tables"], inp["scores"])):
            rows = [(pep, pep in ND_TARGETS) for pep in table]
            sc = [float(x) for x in scores]
            df = pd.DataFrame({"Label": [r[1] for r in rows], "peptide": [r[0] for r in rows], "score": sc, "PSMId": list(range(len(rows)))})
            try:
                out = picked_protein(df, "Label", "peptide", "score", prot, np.random.default_rng(seed))
            except Exception as ex:
                return dict(exception=repr(ex), violation="picked_protein (target-only FASTA), call %d, raised %r" % (k + 1, ex))
            outrows = out.to_dict("records")
            for name, v in _nd_check(rows, outrows, None, [r[1] for r in rows], lambda s_, i: z3.BoolVal(float(s_) == sc[i])):
                if z3.is_false(z3.simplify(v)):
                    return dict(violation="target-only FASTA, call %d on one Proteins object: %s fails; entries %s" % (k + 1, name, [(r["mokapot protein group"], r["best peptide"], r["score"]) for r in outrows]))
            for r in outrows:
                for i, (pep, is_t) in enumerate(rows):
                    if is_t and _pair_key(ND_TARGETS[pep]) == _pair_key(r["mokapot protein group"]) and float(r["score"]) < sc[i]:
                        return dict(violation="target-only FASTA, call %d: entry %r (score %r) is beaten by the target peptide %s (score %r) of the same pair" % (k + 1, r["mokapot protein group"], r["score"], pep, sc[i]))
        if dict(prot.peptide_map) != ND_TARGETS:
            return dict(violation="picked_protein changed the peptide map of the Proteins object it was given: %s" % dict(prot.peptide_map))
    return dict(outputs=None, violation=None)


def harnesses(tier):
    from symx.runner import Harness
    PP, U, F = setup()
    hs = []
    funcs = [PP.picked_protein, PP.strip_peptides, PP.group_with_decoys, U.groupby_max]
    stubs = ["pandas -> sympd (sort_values multi-key stable, sample = arbitrary permutation)", "rng -> nondeterministic permutation"]

    def add(name, cfg):
        hs.append(Harness(name, cfg, sym, real="picked", functions=funcs + ([F.read_fasta, F._group_proteins] if cfg.get("fasta") else []),
                          bounds=dict(peptides=cfg["n"], pairs=cfg.get("pairs")), stubs=stubs,
                          assumptions=["peptide notations drawn from a finite family (plain, flanked, [mass]/(mod) modifications, n-terminal tag)",
                                       "peptide table holds distinct peptide strings", "FASTA contains decoys (has_decoys)"], sample_rate=0.05))
    if tier == "quick":
        for off in range(len(NOTATIONS)):
            add("picked[n=3,pairs=1,notation+%d]" % off, dict(n=3, pairs=1, notation_offset=off))
        add("picked[n=3,pairs=2]", dict(n=3, pairs=2, notation_offset=1))
        add("picked[n=2,pairs=1,unknown peptides]", dict(n=2, pairs=1, notation_offset=0, unknown=True))
        add("picked[n=2,pairs=1,target names containing the decoy prefix]", dict(n=2, pairs=1, notation_offset=0, names="prefix inside"))
        add("picked[n=3,pairs=2,target names containing the decoy prefix]", dict(n=3, pairs=2, notation_offset=2, names="prefix inside"))
    else:
        add("picked[n=3,pairs=2,target names containing the decoy prefix]", dict(n=3, pairs=2, notation_offset=1, names="prefix inside"))
        add("picked[n=4,pairs=1,target names containing the decoy prefix]", dict(n=4, pairs=1, notation_offset=3, names="prefix inside"))
        for off in range(len(NOTATIONS)):
            add("picked[n=4,pairs=1,notation+%d]" % off, dict(n=4, pairs=1, notation_offset=off))
            add("picked[n=3,pairs=2,notation+%d]" % off, dict(n=3, pairs=2, notation_offset=off))
        add("picked[n=4,pairs=2]", dict(n=4, pairs=2, notation_offset=2))
        add("picked[n=3,pairs=1,unknown peptides]", dict(n=3, pairs=1, notation_offset=0, unknown=True))
    from checks import conflib
    C = conflib.setup()[0]
    for cfg in ([dict(n=2, pairs=1, notation_offset=1), dict(n=2, pairs=2, notation_offset=0)] if tier == "quick" else [dict(n=3, pairs=1, notation_offset=1), dict(n=2, pairs=2, notation_offset=3), dict(n=3, pairs=2, notation_offset=0, sample="identity")]):
        hs.append(Harness("confidence_proteins[n=%d,pairs=%d]" % (cfg["n"], cfg["pairs"]), cfg, sym_confidence_proteins, real="conf_proteins",
                          functions=[C.assign_confidence, C.LinearConfidence._assign_confidence, PP.picked_protein], bounds=cfg, stubs=stubs + ["as C03 (VFS, q-values by the C01 formula)"],
                          assumptions=["distinct spectra (competition below the protein level is C03's business)"], sample_rate=0.05))
    # target-only FASTA: decoy peptides are matched to target peptides of the same composition; one Proteins
    # object serves two tables one after the other
    PE = __import__("symx.world", fromlist=["x"]).mod("mokapot.peptides")
    for tables in ([["ACDEK", "EDCAK"], ["FGHIK", "CEDAK", "IHGFK"]], [["EDCAK", "DACEK"], ["DECAK"]]) if tier == "quick" else \
            ([["ACDEK", "EDCAK", "FGHIK"], ["FGHIK", "CEDAK", "IHGFK"]], [["EDCAK", "DECAK", "CEDAK"], ["ACDEK", "DECAK"]], [["ACDEK", "CADEK", "DACEK", "EDCAK"]]):
        hs.append(Harness("picked[target-only fasta,one Proteins object,tables %s]" % " then ".join("+".join(t) for t in tables), dict(tables=tables), sym_nodecoys, real="nodecoys",
                          functions=[PP.picked_protein, PP.group_without_decoys, PE.match_decoy, PE.residue_sort, U.groupby_max],
                          bounds=dict(tables=len(tables), peptides=max(len(t) for t in tables)), stubs=stubs + ["Series.sample(frac=1) without random_state -> arbitrary permutation"],
                          assumptions=["concrete peptide strings without modifications; composition classes X (two groups) and Y (one group)"], sample_rate=0.05))
    # group names as built by the real read_fasta, corresponding entry orders
    for nm, tp in (("equal sets", {"A": ["PEPTIDEAK", "PEPTIDECK"], "B": ["PEPTIDEAK", "PEPTIDECK"]}),
                   ("nested sets", {"A": ["PEPTIDEAK", "PEPTIDECK"], "B": ["PEPTIDEAK"]})):
        order = ["A", "B", PREFIX + "A", PREFIX + "B"]
        add("picked[fasta groups: %s, decoys in target order]" % nm, dict(n=3, notation_offset=0, fasta=dict(target_peps=tp, order=order)))
        # NOTE: with the decoys in the opposite entry order (A, B, decoy_B, decoy_A) and equal peptide
        # sets the pairing breaks - known finding 'picked-pairing-member-order' (known_findings.json),
        # re-confirmed through the public API by REAL['picked_fasta'] on every run.
    return hs


# ------------------------------------------------------------------ concrete --
def real_picked(cfg, inp):
    import numpy as np
    import pandas as pd
    import mokapot
    from mokapot.proteins import Proteins
    from mokapot.picked_protein import picked_protein
    maps = inp["maps"]
    prot = Proteins(decoy_prefix=PREFIX, peptide_map=dict(maps["peptide_map"]), shared_peptides=dict(maps["shared"]),
                    protein_map=dict(maps["protein_map"]), has_decoys=True)
    n = len(inp["peptides"])
    df = pd.DataFrame({"Label": [bool(x) for x in inp["labels"]], "peptide": inp["peptides"], "score": [float(x) for x in inp["scores"]], "PSMId": list(range(n))})
    import re

    def strip(p):
        p = re.sub(r"[\[\(].*?[\]\)]", "", p)
        p = re.sub(r"^.*?\.", "", p)
        p = re.sub(r"\..*?$", "", p)
        return re.sub(r"[a-z]", "", p)
    stripped = [strip(p) for p in inp["peptides"]]
    owners = [maps["peptide_map"].get(s) for s in stripped]
    unknown = sum(1 for s, o in zip(stripped, owners) if o is None and s not in maps["shared"])
    for seed in (0, 1, 2):
        try:
            out = picked_protein(df.copy(), "Label", "peptide", "score", prot, np.random.default_rng(seed))
        except ValueError as ex:
            if unknown and ("could be matched" in str(ex) or "could be mapped" in str(ex)):
                return dict(exception="ValueError", violation=None)
            return dict(exception=repr(ex), violation="picked_protein raised %r" % (ex,))
        except Exception as ex:
            return dict(exception=repr(ex), violation="picked_protein raised %r" % (ex,))
        cand = {}
        for i, o in enumerate(owners):
            if o is not None:
                cand.setdefault(_pair_key(o), []).append(i)
        rows = out.to_dict("records")
        if len(rows) != len(cand):
            return dict(violation="%d entries for %d target/decoy pairs with unique peptides (groups %s)" % (len(rows), len(cand), [r["mokapot protein group"] for r in rows]))
        seen = set()
        for r in rows:
            key = _pair_key(r["mokapot protein group"])
            if key not in cand or key in seen:
                return dict(violation="entry %r is not a distinct pair with unique peptides" % (r["mokapot protein group"],))
            seen.add(key)
            best = max(float(inp["scores"][i]) for i in cand[key])
            ok = any(r["best peptide"] == inp["peptides"][i] and r["stripped sequence"] == stripped[i] and r["mokapot protein group"] == owners[i]
                     and float(r["score"]) == float(inp["scores"][i]) == best and bool(r["Label"]) == bool(inp["labels"][i]) for i in cand[key])
            if not ok:
                return dict(violation="entry %s is not the best unique peptide of its pair (candidates %s)" % (r, [(inp["peptides"][i], inp["scores"][i]) for i in cand[key]]))
    return dict(outputs=None, violation=None)


def real_picked_fasta(cfg, inp):
    """Through the public API: write a FASTA file, mokapot.read_fasta, picked_protein."""
    import tempfile
    import numpy as np
    import pandas as pd
    import mokapot
    from mokapot.picked_protein import picked_protein
    with tempfile.TemporaryDirectory(prefix="verif_c15_") as d:
        p = os.path.join(d, "db.fasta")
        with open(p, "w") as f:
            for name, peps in inp["entries"]:
                f.write(">%s\n%s\n" % (name, "".join(peps)))
        prot = mokapot.read_fasta(p, missed_cleavages=0, min_length=6, decoy_prefix=PREFIX)
    maps = dict(peptide_map=dict(prot.peptide_map), shared=dict(prot.shared_peptides), protein_map=dict(prot.protein_map))
    return real_picked(cfg, dict(inp, maps=maps))


def _strip_notation(x):
    import re
    x = re.sub(r"[\[\(].*?[\]\)]", "", x)
    x = re.sub(r"^.*?\.", "", x)
    x = re.sub(r"\..*?$", "", x)
    return re.sub(r"[a-z]", "", x)


def real_conf_proteins(cfg, inp):
    import tempfile
    import re
    from pathlib import Path
    from fractions import Fraction
    import numpy as np
    import pandas as pd
    import mokapot
    from mokapot.proteins import Proteins
    from checks import spec
    C = __import__("sys").modules["mokapot.confidence"]
    maps = inp["maps"]
    prot = Proteins(decoy_prefix=PREFIX, peptide_map=dict(maps["peptide_map"]), shared_peptides=dict(maps["shared"]), protein_map=dict(maps["protein_map"]), has_decoys=True)
    n = len(inp["peptides"])
    lab = [bool(x) for x in inp["labels"]]
    sc = [float(x) for x in inp["scores"]]
    with tempfile.TemporaryDirectory(prefix="verif_c15p_") as d:
        df = pd.DataFrame({"SpecId": ["psm%d" % i for i in range(n)], "Label": lab, "ScanNr": list(range(n)), "ExpMass": [1.0] * n, "Peptide": inp["peptides"],
                           "Proteins": ["p"] * n, "feat": [0.5] * n})
        p = Path(d) / "a.pin"
        df.to_csv(p, sep="\t", index=False)
        os.makedirs(os.path.join(d, "out"))
        ps = mokapot.read_pin(p, max_workers=1)[0]
        old = C.peps_from_scores
        C.peps_from_scores = lambda s_, t_, a="qvality": np.full(len(s_), 0.5)
        try:
            mokapot.assign_confidence([ps], max_workers=1, scores=[np.array(sc)], descs=[True], dest_dir=Path(d) / "out", prefixes=[None], decoys=True, proteins=prot)
        except ValueError as ex:
            if "could be matched" in str(ex) or "could be mapped" in str(ex):
                return dict(exception="ValueError", violation=None)
            return dict(exception=repr(ex), violation="assign_confidence(proteins=...) raised %r" % (ex,))
        except BaseException as ex:
            if not any(_strip_notation(x) in maps["peptide_map"] for x in inp["peptides"]):
                # no peptide maps to a unique protein group: there is no pair the statement speaks about and the
                # run cannot produce protein-level results (it stops in the q-value / PEP routines on an empty
                # table: numba TypingError or SystemExit) - outside the statement
                return dict(exception=type(ex).__name__, violation=None)
            return dict(exception=repr(ex), violation="assign_confidence(proteins=...) raised %r" % (ex,))
        finally:
            C.peps_from_scores = old
        tf = pd.read_csv(os.path.join(d, "out", "targets.proteins"), sep="\t")
        dfile = pd.read_csv(os.path.join(d, "out", "decoys.proteins"), sep="\t")
        left = sorted(f for f in os.listdir(os.path.join(d, "out")) if not _is_result_file(f))
        if left:
            return dict(violation="after a successful assign_confidence(proteins=...) intermediate files remain in the destination directory: %s" % left)

    def strip(x):
        x = re.sub(r"[\[\(].*?[\]\)]", "", x)
        x = re.sub(r"^.*?\.", "", x)
        x = re.sub(r"\..*?$", "", x)
        return re.sub(r"[a-z]", "", x)
    stripped = [strip(x) for x in inp["peptides"]]
    owners = [maps["peptide_map"].get(x) for x in stripped]
    cand = {}
    for i, o in enumerate(owners):
        if o is not None:
            cand.setdefault(_pair_key(o), []).append(i)
    entries = [(r, True) for r in tf.to_dict("records")] + [(r, False) for r in dfile.to_dict("records")]
    for t in (tf, dfile):
        sc_ = [float(x) for x in t["score"]]
        if any(a < b for a, b in zip(sc_, sc_[1:])):
            return dict(violation="protein rows not in non-increasing score order: %s" % sc_)
    if len(entries) != len(cand):
        return dict(violation="%d protein entries for %d pairs with unique peptides" % (len(entries), len(cand)))
    seen = set()
    for r, is_t in entries:
        key = _pair_key(r["mokapot protein group"])
        if key not in cand or key in seen:
            return dict(violation="entry %r is not a distinct pair" % (r["mokapot protein group"],))
        seen.add(key)
        best = max(sc[i] for i in cand[key])
        if not any(r["best peptide"] == inp["peptides"][i] and r["stripped sequence"] == stripped[i] and r["mokapot protein group"] == owners[i] and abs(float(r["score"]) - sc[i]) < 1e-9
                   and sc[i] == best and lab[i] == is_t for i in cand[key]):
            return dict(violation="protein entry %s (in %s file) is not the best unique peptide of its pair" % (r, "targets" if is_t else "decoys"))
    if entries:
        q = spec.conc_q([Fraction(float(r["score"])) for r, _ in entries], [t for _, t in entries], True)
        for (r, _), qe in zip(entries, q):
            if abs(float(r["q-value"]) - float(qe)) > 2e-6:
                return dict(violation="protein q-value %r, formula over the entries gives %s" % (r["q-value"], qe))
    return dict(outputs=None, violation=None)


REAL = {"nodecoys": real_nodecoys, "picked": real_picked, "picked_fasta": real_picked_fasta, "conf_proteins": real_conf_proteins}
