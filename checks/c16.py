"""C16 - protein grouping is a maximal-subset grouping with a consistent peptide map.

Real code executed: mokapot.parsers.fasta.read_fasta (body), _group_proteins with
_parse_fasta_files/_parse_protein/digest stubbed to deliver protein i with the peptide set
given by symbolic incidence bits. The executor forks on every bit, so this is a solver-driven
bounded-exhaustive walk over all incidence structures (stated plainly in DESIGN.md); entry
order and set-iteration order (the model of PYTHONHASHSEED) are varied per harness."""
import itertools
import os

ID = "C16"
PREFIX = "decoy_"


def setup():
    from symx import world
    world.import_mokapot_patched()
    F = world.mod("mokapot.parsers.fasta")
    world.route_set_displays(F)  # `{...}` built by syntax obeys the `set` shim as well
    for k in ("_parse_fasta_files", "_parse_protein"):
        REALS.setdefault(k, F.__dict__[k])
    return F


REALS = {}


class _Text:
    def __init__(self, t):
        self.t = t

    def read(self):
        return self.t

    def __enter__(self):
        return self

    def __exit__(self, *a):
        return False


def _oset_class(mode):
    def key(x):
        return x

    class OSet(set):
        """set whose iteration order is a fixed global order (model of a hash seed)"""

        def __iter__(self):
            items = sorted(set.__iter__(self), key=key)
            if mode == "desc":
                items = items[::-1]
            elif mode == "rot" and len(items) > 1:
                items = items[1:] + items[:1]
            return iter(items)

        def intersection(self, *others):
            return OSet(set.intersection(self, *others))

        def union(self, *others):
            return OSet(set.union(self, *others))

        def copy(self):
            return OSet(self)
    return OSet


def check_maps(names, pepsets, peptide_map, shared, protein_map):
    """The clauses of the statement, literally. -> (violation text or None, grouping) where
    grouping = frozenset of (members, peptides). Pure Python; used by the symbolic run (per
    path the structure is concrete) and by the replay."""
    live = [n for n in names if pepsets[n]]
    allpeps = set().union(*[pepsets[n] for n in live]) if live else set()
    gnames = set(peptide_map.values())
    for s in shared.values():
        gnames |= set(s.split("; "))
    members = {g: frozenset(g.split(", ")) for g in gnames}
    grouping = None
    for g, ms in members.items():
        if any(m not in pepsets or not pepsets[m] for m in ms):
            return "group %r has a member that is not a protein with peptides" % g, grouping
    gpeps = {g: set().union(*[pepsets[m] for m in ms]) for g, ms in members.items()}
    grouping = frozenset((ms, frozenset(gpeps[g])) for g, ms in members.items())
    if len(set(members.values())) != len(members):
        return "two groups with the same members: %s" % sorted(gnames), grouping
    if set(peptide_map) & set(shared):
        return "peptide recorded both as unique and as shared: %s" % sorted(set(peptide_map) & set(shared)), grouping
    if set(peptide_map) | set(shared) != allpeps:
        return "peptides recorded %s != peptides of the proteins %s" % (sorted(set(peptide_map) | set(shared)), sorted(allpeps)), grouping
    for n in live:
        if not any(n in ms for ms in members.values()):
            return "protein %s belongs to no group" % n, grouping
    for g, ms in members.items():
        if not any(pepsets[m] == gpeps[g] for m in ms):
            return "peptide set of group %r is not that of one of its members" % g, grouping
    for g in members:
        for h in members:
            if g != h and gpeps[g] <= gpeps[h]:
                return "peptide set of group %r is contained in that of %r" % (g, h), grouping
    for p in allpeps:
        holders = [g for g in members if p in gpeps[g]]
        if len(holders) == 1:
            if peptide_map.get(p) != holders[0]:
                return "unique peptide %s maps to %r, expected %r" % (p, peptide_map.get(p), holders[0]), grouping
        else:
            if p not in shared or set(shared[p].split("; ")) != set(holders):
                return "shared peptide %s recorded as %r, expected groups %s" % (p, shared.get(p), sorted(holders)), grouping
    exp_map = {n: PREFIX + n for n in live if not n.startswith(PREFIX)}
    if protein_map != exp_map:
        return "protein_map %s, expected %s" % (protein_map, exp_map), grouping
    return None, grouping


def _names(P, with_decoy, nested=False):
    names = ["T%d" % i for i in range(P)]
    if nested:
        # names that are substrings of one another and of joined group names ("T10, T7")
        names = ["T10", "T7", "T1", "T", "T17"][:P]
    if with_decoy:
        names[-1] = PREFIX + names[0]
    return names


def sym(ctx, cfg):
    import z3
    from symx.core import SBool, PathOutcome, Unsupported
    F = setup()
    P, Q = cfg["P"], cfg["Q"]
    names = _names(P, cfg.get("decoy"), cfg.get("nested"))
    bits = [[SBool(z3.Bool("inc_%d_%d" % (i, k))) for k in range(Q)] for i in range(P)]
    pepsets = {}
    for i, n in enumerate(names):
        pepsets[n] = {"PEP%d" % k for k in range(Q) if bool(bits[i][k])}
    inputs = dict(incidence=[[b for b in row] for row in bits], orders=cfg["orders"])
    props = []
    first = None
    exact_by_order = {}
    has_decoys = any((PREFIX + n) in pepsets and pepsets[PREFIX + n] for n in names if not n.startswith(PREFIX) and pepsets[n])
    only = all(n.startswith(PREFIX) or not pepsets[n] for n in names)
    for order in cfg["orders"]:
        for mode in cfg["set_orders"]:
            OSet = _oset_class(mode)
            entries = [names[i] for i in order]
            F.set = OSet
            nfiles = cfg.get("files", 0)
            if nfiles:
                # the REAL _parse_fasta_files / _parse_protein on several in-memory files (sequence = protein name)
                texts = {}
                for fi in range(nfiles):
                    part = entries[fi::nfiles]
                    texts["/vfs/db%d.fasta" % fi] = "\n".join(">%s some description\n%s" % (e, e) for e in part) + "\n"
                F._parse_fasta_files = REALS["_parse_fasta_files"]
                F._parse_protein = REALS["_parse_protein"]
                F.open = lambda path, *a, **k: _Text(texts[str(path)])
                fasta_arg = list(texts)
            else:
                F._parse_fasta_files = lambda files: list(entries)
                F._parse_protein = lambda e: (e, e)
                fasta_arg = "ignored.fasta"
            F.digest = lambda seq, *a, **kw: OSet(pepsets[seq])
            tag = "[order=%s,sets=%s]" % ("".join(map(str, order)), mode)
            try:
                prot = F.read_fasta(fasta_arg, decoy_prefix=PREFIX)
            except Unsupported:
                raise
            except ValueError as ex:
                if "Only decoy proteins were found" in str(ex):
                    props.append(("only_decoys_error_is_justified" + tag, z3.BoolVal(only)))
                    continue
                return PathOutcome([], inputs, None, "exc", note="ValueError:" + str(ex)[:80])
            except Exception as ex:
                return PathOutcome([], inputs, None, "exc", note=type(ex).__name__ + ":" + str(ex)[:80])
            v, grouping = check_maps(names, pepsets, dict(prot.peptide_map), dict(prot.shared_peptides), dict(prot.protein_map))
            props.append(("maps_match_statement" + tag + (": " + v if v else ""), z3.BoolVal(v is None)))
            props.append(("has_decoys_flag" + tag, z3.BoolVal(bool(prot.has_decoys) == has_decoys)))
            if first is None:
                first = grouping
            else:
                props.append(("grouping_independent_of_entry_and_hash_order" + tag, z3.BoolVal(grouping == first)))
            # C08: for ONE entry order the maps are identical - group NAMES included - whatever the set-iteration
            # order (what a fresh interpreter with another PYTHONHASHSEED changes)
            exact = (dict(prot.peptide_map), dict(prot.protein_map))
            key_ = tuple(order)
            if key_ not in exact_by_order:
                exact_by_order[key_] = exact
            else:
                props.append(("group_names_independent_of_hash_order" + tag, z3.BoolVal(exact == exact_by_order[key_])))
    return PathOutcome(props, inputs, None)


def harnesses(tier):
    from symx.runner import Harness
    F = setup()
    hs = []

    def add(P, Q, orders, modes, decoy=False, nested=False, files=0):
        orders = [list(o) for o in orders]
        hs.append(Harness("group[%dx%d%s%s%s,%d entry orders x %d set orders]" % (P, Q, ",decoy" if decoy else "", ",names nested in one another" if nested else "", ",%d files" % files if files else "", len(orders), len(modes)),
                          dict(P=P, Q=Q, orders=orders, set_orders=list(modes), decoy=decoy, nested=nested, files=files), sym, real="fasta",
                          functions=[F.read_fasta, F._group_proteins], bounds=dict(proteins=P, peptides=Q, entry_orders=len(orders), set_orders=list(modes)),
                          stubs=["_parse_fasta_files/_parse_protein/digest -> protein i yields the peptide set given by incidence bits",
                                 "set -> ordered set with a fixed global iteration order (asc/desc/rotated): model of PYTHONHASHSEED"],
                          assumptions=["<= %d proteins x <= %d peptides" % (P, Q)], sample_rate=0.02 if P * Q >= 9 else 0.2))
    allp = lambda n: list(itertools.permutations(range(n)))
    if tier == "quick":
        add(2, 2, allp(2), ["asc", "desc"])
        add(3, 3, allp(3), ["asc", "desc", "rot"])
        add(3, 2, allp(3), ["asc", "desc"], decoy=True)
        add(4, 3, [(0, 1, 2, 3), (3, 2, 1, 0), (1, 3, 0, 2), (2, 0, 3, 1)], ["asc", "desc"])
        add(3, 3, allp(3), ["asc", "desc"], nested=True)
        add(3, 2, [(0, 1, 2), (2, 0, 1)], ["asc", "desc", "rot"], files=2)
        add(4, 3, [(0, 1, 2, 3), (3, 2, 1, 0), (1, 3, 0, 2), (2, 0, 3, 1)], ["asc"], nested=True)
        add(3, 4, [(0, 1, 2), (2, 0, 1)], ["asc", "desc"])     # a peptide shared by three mutually incomparable groups needs four peptides
    else:
        add(4, 3, allp(4), ["asc", "desc"], nested=True)
        add(4, 4, [(0, 1, 2, 3), (3, 2, 1, 0), (1, 3, 0, 2), (2, 0, 3, 1), (2, 3, 1, 0)], ["asc", "desc"], nested=True)
        add(3, 3, allp(3), ["asc", "desc", "rot"])
        add(3, 3, allp(3), ["asc", "desc"], decoy=True)
        add(4, 3, allp(4), ["asc", "desc", "rot"])
        add(3, 4, allp(3), ["asc", "desc", "rot"])
        add(4, 4, allp(4), ["asc", "desc"])
    return hs


BUDGET = {"quick": 600, "thorough": 3400}


# ------------------------------------------------------------------ concrete --
PEPSEQ = ["AAAAAAK", "CCCCCCK", "DDDDDDK", "EEEEEEK", "FFFFFFK"]


def real_fasta(cfg, inp):
    import tempfile
    import mokapot
    P, Q = cfg["P"], cfg["Q"]
    names = _names(P, cfg.get("decoy"), cfg.get("nested"))
    inc = inp["incidence"]
    pepsets = {n: {PEPSEQ[k] for k in range(Q) if inc[i][k]} for i, n in enumerate(names)}
    only = all(n.startswith(PREFIX) or not pepsets[n] for n in names)
    first = None
    with tempfile.TemporaryDirectory(prefix="verif_c16_") as d:
        for order in inp["orders"]:
            p = os.path.join(d, "db.fasta")
            with open(p, "w") as f:
                for i in order:
                    n = names[i]
                    f.write(">%s some description\n%s\n" % (n, "".join(PEPSEQ[k] for k in range(Q) if inc[i][k])))
            try:
                prot = mokapot.read_fasta(p, missed_cleavages=0, min_length=6, decoy_prefix=PREFIX)
            except ValueError as ex:
                if "Only decoy proteins were found" in str(ex) and only:
                    continue
                return dict(exception=repr(ex), violation="read_fasta raised %r" % (ex,))
            except Exception as ex:
                return dict(exception=repr(ex), violation="read_fasta raised %r" % (ex,))
            v, grouping = check_maps(names, pepsets, dict(prot.peptide_map), dict(prot.shared_peptides), dict(prot.protein_map))
            if v:
                return dict(violation="entry order %s: %s" % (order, v))
            if first is None:
                first = grouping
            elif grouping != first:
                return dict(violation="grouping depends on the entry order: %s vs %s" % (sorted(map(str, grouping)), sorted(map(str, first))))
    if any("hash_order" in x for x in cfg.get("_failed", [])):
        # counterexample that needs a different set-iteration order: real interpreter sessions
        # with different PYTHONHASHSEED values
        import subprocess, sys, json
        exact = any("group_names" in x for x in cfg.get("_failed", []))
        nfiles = cfg.get("files", 0) or 1
        for order in inp["orders"]:
            seen = {}
            with tempfile.TemporaryDirectory(prefix="verif_c16_") as d:
                entries = [names[i] for i in order]
                paths = []
                for fi in range(nfiles):
                    p = os.path.join(d, "db%d.fasta" % fi)
                    with open(p, "w") as f:
                        for n in entries[fi::nfiles]:
                            f.write(">%s some description\n%s\n" % (n, "".join(PEPSEQ[k] for k in range(Q) if inc[names.index(n)][k])))
                    paths.append(p)
                show = ("sorted(pr.peptide_map.items()) + sorted(pr.protein_map.items())" if exact else "sorted([sorted(g.split(', ')), p] for p, g in pr.peptide_map.items())")
                code = ("import sys; sys.path.insert(0, %r); import mokapot, json; pr = mokapot.read_fasta(%r, missed_cleavages=0, min_length=6, decoy_prefix=%r);"
                        "print(json.dumps(%s))" % (os.environ.get("VERIF_REPO", "/repo"), paths if nfiles > 1 else paths[0], PREFIX, show))
                for seed in range(1, 9):
                    env = dict(os.environ, PYTHONHASHSEED=str(seed))
                    r = subprocess.run([sys.executable, "-W", "ignore", "-c", code], capture_output=True, text=True, env=env)
                    if r.returncode == 0 and r.stdout.strip():
                        seen.setdefault(r.stdout.strip().splitlines()[-1], seed)
            if len(seen) > 1:
                return dict(violation="read_fasta on %d file(s), entry order %s: the %s depend on PYTHONHASHSEED - seeds %s give %s" % (
                    nfiles, order, "peptide and protein maps (group names)" if exact else "groups", sorted(seen.values()), list(seen)[:2]))
    return dict(outputs=None, violation=None)


REAL = {"fasta": real_fasta}
