"""C17 - in-silico digestion returns exactly the peptides the enzyme rules allow.

Real code executed symbolically: mokapot.parsers.fasta.digest, _cleavage_sites, _cleave
on a tokenised residue string; the regex engine is the stub symx.rx (checked against
the real `re` in the preflight)."""
import re

ID = "C17"
PATTERNS = ["[KR]", "[KR](?!P)", "\\w(?=D)", "(?=D)"]
MAXMC = 3


def setup():
    from symx import world, rx
    world.import_mokapot_patched()
    F = world.mod("mokapot.parsers.fasta")
    world.rebind(F, re=rx)
    return F


def preflight(tier):
    from symx import rx
    return rx.selftest(PATTERNS + ["[KR](?=P)", "(?<=K)D", "[^P]", "(?<=K)", "(?<=[KR])(?!P)"], maxlen=4)


class _PepSet:
    def __init__(self, peps):
        from symx import items
        self.peps = [items.SymText(p) for p in peps]

    def __symx_eval__(self, m):
        return sorted({p.__symx_eval__(m) for p in self.peps})


def sym(ctx, cfg):
    import z3
    from symx import items, rx, core
    from symx.core import SNum, SBool, PathOutcome, Unsupported
    F = setup()
    L, pat = cfg["L"], cfg["pattern"]
    items.reset()
    zc = [z3.Int("c%d" % i) for i in range(L)]
    for z in zc:
        ctx.assume(z3.And(z >= 65, z <= 90))
    seq = items.TStr("".join(str.__str__(items.residue(SNum(z, (65, 90)))) for z in zc))
    first = items.BASE
    mcmax = min(MAXMC, L)
    zmc, zlo, zhi = z3.Int("missed_cleavages"), z3.Int("min_length"), z3.Int("max_length")
    zsemi, zclip = z3.Bool("semi"), z3.Bool("clip")
    ctx.assume(z3.And(zmc >= 0, zmc <= mcmax, zlo >= 1, zlo <= L + 1, zhi >= 0, zhi <= L + 1))
    mc = SNum(zmc, (0, mcmax))
    inputs = dict(sequence=items.SymText(seq), missed_cleavages=mc, min_length=SNum(zlo), max_length=SNum(zhi),
                  semi=SBool(zsemi), clip=SBool(zclip))
    try:
        got = F.digest(seq, enzyme_regex=pat, missed_cleavages=mc, clip_nterm_methionine=SBool(zclip),
                       min_length=SNum(zlo, (1, L + 1)), max_length=SNum(zhi, (0, L + 1)), semi=SBool(zsemi))
    except Unsupported:
        raise
    except Exception as ex:
        return PathOutcome([], inputs, None, "exc", note=type(ex).__name__ + ":" + str(ex)[:80])
    props = []
    impl_spans = set()
    for p in got:
        idx = [ord(c) - first for c in str.__str__(p)]
        if not idx or any(i < 0 or i >= L for i in idx) or idx != list(range(idx[0], idx[0] + len(idx))):
            # not a contiguous piece of the protein (or empty)
            props.append(("substring", z3.BoolVal(False)))
            continue
        impl_spans.add((idx[0], idx[-1] + 1))
    # ---- oracle: a formula over the residues only (independent of the path decisions)
    s = str.__str__(seq)
    R = rx.Rx(pat)
    site = {0: z3.BoolVal(True), L: z3.BoolVal(True)}
    for k in range(1, L):
        site[k] = core.zbool(R.site_cond(s, k))
    if L >= 1:
        # a match on the last residue adds a duplicate site L: no new peptide
        pass
    spec = {}

    def add(sp, cond):
        spec[sp] = z3.Or(spec[sp], cond) if sp in spec else cond
    isM = zc[0] == ord("M") if L else z3.BoolVal(False)
    for a in range(L + 1):
        for b in range(a + 1, L + 1):
            ln = b - a
            missed = z3.Sum([z3.If(site[k], 1, 0) for k in range(a + 1, b)]) if b - a > 1 else z3.IntVal(0)
            base = z3.And(site[a], site[b], missed <= zmc, zlo <= ln, ln <= zhi)
            add((a, b), base)
            if a == 0 and ln >= 2:
                add((1, b), z3.And(base, zclip, isM, ln - 1 >= zlo))
            for k in range(1, ln):
                c = z3.And(base, zsemi, zlo <= ln - k, ln - k <= zhi)
                add((a + k, b), c)
                add((a, b - k), c)

    def ceq(x, y):
        (a0, a1), (b0, b1) = x, y
        if a1 - a0 != b1 - b0:
            return z3.BoolVal(False)
        if a0 == b0:
            return z3.BoolVal(True)
        return z3.And([zc[a0 + k] == zc[b0 + k] for k in range(a1 - a0)])
    if L == 0:
        props.append(("empty_sequence_empty_digest", z3.BoolVal(len(got) == 0)))
    allspans = [(a, b) for a in range(L + 1) for b in range(a + 1, L + 1)]
    for x in allspans:
        impl_has = z3.Or([ceq(sp, x) for sp in impl_spans]) if impl_spans else z3.BoolVal(False)
        spec_has = z3.Or([z3.And(c, ceq(y, x)) for y, c in spec.items()])
        props.append(("member%s" % (x,), impl_has == spec_has))
    return PathOutcome(props, inputs, _PepSet(got))


def harnesses(tier):
    from symx.runner import Harness
    F = setup()
    hs = []
    lmax = 4 if tier == "quick" else 6
    for pat in PATTERNS:
        for L in range(0, lmax + 1):
            hs.append(Harness("digest[%s,L=%d]" % (pat, L), dict(L=L, pattern=pat), sym, real="digest",
                              functions=[F.digest, F._cleavage_sites, F._cleave],
                              bounds=dict(L=L, missed_cleavages="0..%d" % min(MAXMC, L), min_length="1..L+1", max_length="0..L+1"),
                              stubs=["re -> symx.rx (single-residue class with optional look-around; compared with the real re in preflight)",
                                     "str -> tokenised residue string (symx.items.TStr)"],
                              assumptions=["residues are upper-case letters A-Z", "min_length >= 1",
                                           "enzyme pattern is one residue class with optional look-around, or a zero-width look-around (Asp-N style)",
                                           "sequence length <= %d" % L]))
    return hs


# ------------------------------------------------------------------ concrete --
def conc_digest(seq, pat, mc, lo, hi, semi, clip):
    L = len(seq)
    sites = sorted(set([0] + [m.end() for m in re.finditer(pat, seq)] + [L]))
    out = set()
    for i, a in enumerate(sites):
        for j in range(i + 1, len(sites)):
            b = sites[j]
            if j - i - 1 > mc:
                continue
            pep = seq[a:b]
            if not (lo <= len(pep) <= hi):
                continue
            out.add(pep)
            if clip and a == 0 and pep.startswith("M") and len(pep) - 1 >= lo:
                out.add(pep[1:])
            if semi:
                for k in range(1, len(pep)):
                    if lo <= len(pep) - k <= hi:
                        out.add(pep[k:])
                        out.add(pep[:-k])
    return out


def real_digest(cfg, inp):
    import mokapot
    seq = inp["sequence"]
    args = (inp["missed_cleavages"], inp["min_length"], inp["max_length"], inp["semi"], inp["clip"])
    try:
        got = mokapot.digest(seq, enzyme_regex=cfg["pattern"], missed_cleavages=args[0], clip_nterm_methionine=args[4],
                             min_length=args[1], max_length=args[2], semi=args[3])
    except Exception as ex:
        return dict(exception=repr(ex), violation="digest raised %r" % (ex,))
    exp = conc_digest(seq, cfg["pattern"], *args)
    viol = None
    if set(got) != exp:
        viol = "digest(%r, %r, mc=%s, min=%s, max=%s, semi=%s, clip=%s): extra=%s missing=%s" % (
            seq, cfg["pattern"], *args, sorted(set(got) - exp), sorted(exp - set(got)))
    elif any(p not in seq for p in got):
        viol = "non-substring returned"
    return dict(outputs=sorted(got), violation=viol)


REAL = {"digest": real_digest}
