"""C18 - generated decoys preserve length, composition and cleavage structure;
make_decoys output re-reads to the same names and sequences.

Real code executed symbolically: mokapot.parsers.fasta._shuffle_proteins, make_decoys,
_parse_fasta_files, _parse_protein (file system = VFS dict, RNG = nondeterministic
permutation stub, regex = symx.rx)."""
import os
import re

ID = "C18"
PREFIX = "decoy_"


class _Cut(BaseException):
    pass


def setup():
    import types
    from symx import world, rx, symnp
    world.import_mokapot_patched()
    F = world.mod("mokapot.parsers.fasta")
    world.rebind(F, re=rx)
    return F


def _np_ns(log, mode):
    """numpy namespace for fasta.py: arange/flip/array_equal + global RNG stub"""
    import types
    from symx import symnp, core

    def array_equal(a, b):
        return list(a.items) == list(b.items)
    state = dict(ident=0)

    class _R:
        @staticmethod
        def permutation(base):
            n = len(base.items)
            if mode == "family":
                p = symnp.nd_permutation(n, "perm")
            else:
                old = symnp.PERM_FULL_MAX[0]
                symnp.PERM_FULL_MAX[0] = 4
                try:
                    p = symnp.nd_permutation(n, "perm")
                finally:
                    symnp.PERM_FULL_MAX[0] = old
            if p == list(range(n)):
                state["ident"] += 1
                if state["ident"] > 1:
                    # the RNG returned the identity twice in a row: cut (the 100-tries
                    # exhaustion path ends with the identity, covered by n <= 1 draws)
                    raise core.Abort("rng identity repeated")
            log.append(p)
            return symnp.SArray([base.items[i] for i in p], base.dtype)
    ns = types.SimpleNamespace(**{k: v for k, v in vars(symnp).items() if not k.startswith("__")})
    ns.array_equal = array_equal
    ns.random = _R
    return ns


def _sites_formula(R, s, L):
    import z3
    from symx import core
    site = {0: z3.BoolVal(True), L: z3.BoolVal(True)}
    for k in range(1, L):
        site[k] = core.zbool(R.site_cond(s, k))
    return site


def sym_shuffle(ctx, cfg):
    """One or several successive calls of _shuffle_proteins inside one path (one interpreter
    session): cfg["calls"] = [(lens, reverse), ...]; a single call is the common case."""
    import z3
    from symx import items
    from symx.core import PathOutcome, Unsupported
    F = setup()
    items.reset()
    calls = cfg.get("calls") or [(cfg["lens"], cfg["reverse"])]
    props, inputs, prefer, outputs = [], dict(calls=[]), [], None
    for ci, (lens, reverse) in enumerate(calls):
        r = _one_call(ctx, F, cfg, ci, lens, reverse)
        if isinstance(r, PathOutcome):
            return r
        p, inp, pref, out = r
        props += [("call%d_%s" % (ci, n), z) for n, z in p]
        inputs["calls"].append(inp)
        prefer += pref
        outputs = out if len(calls) == 1 else None
    return PathOutcome(props, inputs, outputs, prefer=prefer)


def _one_call(ctx, F, cfg, ci, lens, reverse):
    import z3
    from symx import items, rx, core, world
    from symx.core import SNum, PathOutcome, Unsupported
    pat = cfg["pattern"]
    log = []
    F.np = _np_ns(log, cfg.get("perm", "full"))
    prots, zcs = [], []
    for pi, L in enumerate(lens):
        zc = [z3.Int("c%d_%d_%d" % (ci, pi, i)) for i in range(L)]
        for z in zc:
            ctx.assume(z3.And(z >= 65, z <= 90))
        seq = items.TStr("".join(str.__str__(items.residue(SNum(z, (65, 90)), prot=(ci, pi), pos=i)) for i, z in enumerate(zc)))
        prots.append(["P%d_%d" % (ci, pi), seq])
        zcs.append(zc)
    inputs = dict(proteins=[[n, items.SymText(s)] for n, s in prots], perms=log, reverse=reverse)
    try:
        decoys = F._shuffle_proteins(prots, PREFIX, pat, reverse)
    except Unsupported:
        raise
    except Exception as ex:
        return PathOutcome([], dict(calls=[inputs]), None, "exc", note=type(ex).__name__ + ":" + str(ex)[:80])
    props = []
    props.append(("count", z3.BoolVal(len(decoys) == len(prots))))
    R = rx.Rx(pat)
    for pi, ((name, seq), dec) in enumerate(zip(prots, decoys)):
        L = lens[pi]
        zc = zcs[pi]
        dname, dseq = dec
        props.append(("name%d" % pi, z3.BoolVal(str.__str__(dname) == PREFIX + name)))
        d = str.__str__(dseq)
        ok_tokens = len(d) == L and all(items.is_tok(c) for c in d)
        props.append(("length%d" % pi, z3.BoolVal(len(d) == L)))
        if not ok_tokens:
            continue
        src = []
        for c in d:
            t = items.tok(c)
            src.append(t["pos"] if t.get("prot") == (ci, pi) else None)
        # composition: the decoy is a rearrangement of exactly the target's residues
        props.append(("composition%d" % pi, z3.BoolVal(None not in src and sorted(src) == list(range(L)))))
        if None in src:
            continue
        site = _sites_formula(R, str.__str__(seq), L)
        for p in range(L):
            q = src[p]
            boundary = z3.Or(site[p], site[p + 1])
            # first/last residue of every enzymatic peptide stays in place
            props.append(("fixed_ends%d_%d" % (pi, p), z3.Implies(boundary, zc[q] == zc[p])))
            # (that a residue stays inside its own peptide is NOT demanded: the statement speaks of contents -
            #  length, composition, peptide ends, cleavage sites, reversal - not of token identity)
        if pat in ("[KR]", "(?=D)"):
            dsite = _sites_formula(R, d, L)
            for k in range(1, L):
                props.append(("same_sites%d_%d" % (pi, k), dsite[k] == site[k]))
        if reverse:
            for a in range(L):
                for b in range(a + 1, L + 1):
                    nosite = z3.Not(z3.Or([site[k] for k in range(a + 1, b)])) if b - a > 1 else z3.BoolVal(True)
                    ispep = z3.And(site[a], site[b], nosite)
                    for j in range(0, b - a - 2):
                        props.append(("reversed%d_%d_%d_%d" % (pi, a, b, j), z3.Implies(ispep, zc[src[a + 1 + j]] == zc[b - 2 - j])))
    outputs = [[str.__str__(n), items.SymText(s)] for n, s in decoys] if not log else None
    # distinct residues make a moved token visible; pairwise (soft) because an enzyme residue may have to repeat
    prefer = [z3.Distinct(zc) for zc in zcs if len(zc) > 1] + [zc[a] != zc[b] for zc in zcs for a in range(len(zc)) for b in range(a + 1, len(zc))]
    return props, inputs, prefer, outputs


# ---- make_decoys round trip on a VFS ---------------------------------------------
class _VFile:
    def __init__(self, vfs, path, mode):
        self.vfs, self.path, self.mode = vfs, path, mode
        if "w" in mode:
            vfs[path] = ""

    def read(self):
        return self.vfs[self.path]

    def write(self, s):
        self.vfs[self.path] = self.vfs[self.path] + s

    def __enter__(self):
        return self

    def __exit__(self, *a):
        return False


def sym_roundtrip(ctx, cfg):
    import z3
    import textwrap
    from symx import items, rx, core
    from symx.core import SNum, PathOutcome, Unsupported
    F = setup()
    lens, reverse, concat, nfiles, width = cfg["lens"], cfg["reverse"], cfg["concatenate"], cfg["files"], cfg["width"]
    items.reset()
    log = []
    F.np = _np_ns(log, "family")
    vfs = {}
    F.open = lambda p, mode="r": _VFile(vfs, str(p), mode)
    prots = []
    prefer = []
    for pi, L in enumerate(lens):
        zc = [z3.Int("c%d_%d" % (pi, i)) for i in range(L)]
        prefer += [z3.Distinct(zc[i:i + 24]) for i in range(0, L, 24) if len(zc[i:i + 24]) > 1]
        for z in zc:
            # no cleavage site inside: the regex stub then never forks (sites only at the ends)
            ctx.assume(z3.And(z >= 65, z <= 90, z != ord("K"), z != ord("R")))
        seq = "".join(str.__str__(items.residue(SNum(z, (65, 90)), prot=pi, pos=i)) for i, z in enumerate(zc))
        prots.append(("sp|Q%d|X_%d" % (pi, pi), seq))
    files = [[] for _ in range(nfiles)]
    for pi, (name, seq) in enumerate(prots):
        rec = ">" + name + (" some description p.Gly12->Asp (G->D) OS=x" if pi % 2 == 0 else "")  # a '>' inside a description is not a record start
        lines = [seq[i:i + width] for i in range(0, len(seq), width)] if width else ([seq] if seq else [])
        files[pi % nfiles].append("\n".join([rec] + lines))
    paths = []
    for fi, recs in enumerate(files):
        p = "/vfs/in%d.fasta" % fi
        vfs[p] = "\n".join(recs) + ("\n" if fi % 2 == 0 else "")
        paths.append(p)
    inputs = dict(files=[items.SymText(vfs[p]) for p in paths], perms=log)
    try:
        out = F.make_decoys(paths if nfiles > 1 else paths[0], "/vfs/out.fasta", decoy_prefix=PREFIX, enzyme="[KR]",
                            reverse=reverse, concatenate=concat)
        entries = F._parse_fasta_files(out)
        parsed = [F._parse_protein(e) for e in entries]
    except Unsupported:
        raise
    except Exception as ex:
        return PathOutcome([], inputs, None, "exc", note=type(ex).__name__ + ":" + str(ex)[:80])
    props = []
    # expected order when several files are given: all entries of file 0, then file 1, ...
    order = [pi for fi in range(nfiles) for pi in range(len(prots)) if pi % nfiles == fi]
    exp_t = [prots[pi] for pi in order]
    n = len(exp_t)
    props.append(("entry_count", z3.BoolVal(len(parsed) == (2 * n if concat else n))))
    got = [(str.__str__(a), str.__str__(b)) for a, b in parsed]
    if concat:
        props.append(("targets_first_unchanged", z3.BoolVal(got[:n] == exp_t)))
        dec = got[n:]
    else:
        dec = got
    for (tn, ts), (dn, ds) in zip(exp_t, dec):
        props.append(("decoy_name", z3.BoolVal(dn == PREFIX + tn)))
        props.append(("decoy_length", z3.BoolVal(len(ds) == len(ts))))
        props.append(("decoy_composition", z3.BoolVal(sorted(ds) == sorted(ts))))
        if len(ts) >= 1:
            props.append(("decoy_ends", z3.BoolVal(ds[:1] == ts[:1] and ds[-1:] == ts[-1:])))
        if reverse and len(ts) > 2:
            props.append(("decoy_reversed", z3.BoolVal(ds[1:-1] == ts[1:-1][::-1])))
    return PathOutcome(props, inputs, None, prefer=prefer)


def preflight(tier):
    import textwrap
    for n in (0, 1, 2, 69, 70, 71, 72, 139, 140, 141, 211):
        a = [len(x) for x in textwrap.wrap("".join(chr(0xE000 + (i % 500)) for i in range(n)))]
        b = [len(x) for x in textwrap.wrap("A" * n)]
        if a != b:
            return "textwrap.wrap treats token strings differently from letters at n=%d: %s vs %s" % (n, a, b)
    from symx import rx
    return rx.selftest(["[KR]", "[KR](?!P)", "(?=D)"], alphabet="KRPDMA", maxlen=4)


def harnesses(tier):
    from symx.runner import Harness
    F = setup()
    hs = []
    lmax = 5 if tier == "quick" else 7
    stubs = ["re -> symx.rx", "numpy.random.permutation -> arbitrary permutation (every permutation for n <= 4, else {identity, reversal, rotation}); identity drawn at most once",
             "str -> tokenised residue string"]
    for pat in ("[KR]", "[KR](?!P)", "(?=D)"):
        for reverse in (False, True):
            for L in range(0, lmax + 1):
                if pat == "[KR](?!P)" and L < 3:
                    continue
                if pat == "(?=D)" and (L < 2 or (tier == "quick" and L > 4)):
                    continue
                hs.append(Harness("shuffle[%s,%s,L=%d]" % (pat, "reverse" if reverse else "shuffle", L),
                                  dict(pattern=pat, reverse=reverse, lens=[L]), sym_shuffle, real="shuffle",
                                  functions=[F._shuffle_proteins, F._cleavage_sites], bounds=dict(L=L, proteins=1), stubs=stubs,
                                  assumptions=["residues are upper-case letters A-Z", "one protein of length %d" % L]))
    for reverse in (False, True):
        hs.append(Harness("shuffle[[KR],%s,two proteins 4+4]" % ("reverse" if reverse else "shuffle"),
                          dict(pattern="[KR]", reverse=reverse, lens=[4, 4]), sym_shuffle, real="shuffle",
                          functions=[F._shuffle_proteins, F._cleavage_sites], bounds=dict(L=4, proteins=2), stubs=stubs,
                          assumptions=["residues are upper-case letters A-Z"]))
    # several calls in one interpreter session (module-level state must not carry over)
    for L in ((5,) if tier == "quick" else (5, 6)):
        hs.append(Harness("shuffle[[KR],shuffle L=%d then reverse L=%d, same session]" % (L, L), dict(pattern="[KR]", calls=[[[L], False], [[L], True]]), sym_shuffle, real="shuffle",
                          functions=[F._shuffle_proteins, F._cleavage_sites], bounds=dict(L=L, calls=2), stubs=stubs, assumptions=["residues are upper-case letters A-Z"], sample_rate=0.2))
    rt = [([0, 1, 3], 0, 1), ([5, 2], 2, 2), ([71, 0, 70], 60, 1), ([141, 69], 0, 2), ([72, 1], 70, 1)]
    if tier == "thorough":
        rt += [([140, 139, 3], 60, 2), ([211], 80, 1), ([70, 70, 70], 70, 3)]
    for lens, width, nfiles in rt:
        for reverse in (False, True):
            for concat in (True, False):
                hs.append(Harness("roundtrip[lens=%s,w=%d,files=%d,%s,%s]" % (lens, width, nfiles, "rev" if reverse else "shuf", "concat" if concat else "decoys-only"),
                                  dict(lens=lens, width=width, files=nfiles, reverse=reverse, concatenate=concat), sym_roundtrip, real="roundtrip",
                                  functions=[F.make_decoys, F._parse_fasta_files, F._parse_protein, F._shuffle_proteins],
                                  bounds=dict(lens=lens), stubs=stubs + ["open -> VFS dict", "textwrap.wrap runs natively on the token string (preflight-compared with letters)"],
                                  assumptions=["sequences contain no K/R (no interior cleavage sites) in the round-trip harness",
                                               "protein names contain no whitespace; sequences no whitespace/hyphen"], sample_rate=1.0))
    return hs


# ------------------------------------------------------------------ concrete --
class _Scripted:
    def __init__(self, perms):
        self.perms = list(perms)

    def __call__(self, base):
        import numpy as np
        if self.perms and len(self.perms[0]) == len(base):
            return np.asarray(base)[self.perms.pop(0)]
        return np.random.RandomState(0).permutation(base)


def _check_decoy(name, seq, dname, dseq, pat, reverse):
    if dname != PREFIX + name:
        return "decoy name %r for %r" % (dname, name)
    if len(dseq) != len(seq):
        return "decoy length differs: %r vs %r" % (dseq, seq)
    if sorted(dseq) != sorted(seq):
        return "composition differs: %r vs %r" % (dseq, seq)
    sites = sorted(set([0] + [m.end() for m in re.finditer(pat, seq)] + [len(seq)]))
    for a, b in zip(sites, sites[1:]):
        if dseq[a] != seq[a] or dseq[b - 1] != seq[b - 1]:
            return "peptide %r: end residue moved (decoy %r)" % (seq[a:b], dseq[a:b])
        if sorted(dseq[a:b]) != sorted(seq[a:b]):
            return "residues crossed a cleavage site: %r -> %r" % (seq, dseq)
        if reverse and b - a > 2 and dseq[a + 1:b - 1] != seq[a + 1:b - 1][::-1]:
            return "interior of %r not reversed: %r" % (seq[a:b], dseq[a:b])
    if pat == "[KR]":
        ds = sorted(set([0] + [m.end() for m in re.finditer(pat, dseq)] + [len(dseq)]))
        if ds != sites:
            return "cleavage sites differ: %s vs %s" % (ds, sites)
    return None


def real_shuffle(cfg, inp):
    from unittest import mock
    import mokapot.parsers.fasta as F
    for call in inp["calls"]:
        prots = [[n, s] for n, s in call["proteins"]]
        with mock.patch("numpy.random.permutation", _Scripted(call.get("perms") or [])):
            try:
                dec = F._shuffle_proteins([list(p) for p in prots], PREFIX, cfg["pattern"], call["reverse"])
            except Exception as ex:
                return dict(exception=repr(ex), violation="_shuffle_proteins raised %r" % (ex,))
        if len(dec) != len(prots):
            return dict(violation="decoy count")
        for (n, s), (dn, ds) in zip(prots, dec):
            v = _check_decoy(n, s, dn, ds, cfg["pattern"], call["reverse"])
            if v:
                return dict(violation="call with reverse=%s: %s" % (call["reverse"], v))
    return dict(outputs=[[a, b] for a, b in dec] if len(inp["calls"]) == 1 else None, violation=None)


def _read_fasta_simple(text):
    out = []
    for line in text.split("\n"):
        if line.startswith(">"):
            out.append([line[1:].split(" ")[0], ""])
        elif out:
            out[-1][1] += line.strip()
    return out


def real_roundtrip(cfg, inp):
    import tempfile
    from unittest import mock
    import mokapot
    with tempfile.TemporaryDirectory(prefix="verif_c18_") as d:
        paths = []
        for i, txt in enumerate(inp["files"]):
            p = os.path.join(d, "in%d.fasta" % i)
            open(p, "w").write(txt)
            paths.append(p)
        out = os.path.join(d, "out.fasta")
        with mock.patch("numpy.random.permutation", _Scripted(inp.get("perms") or [])):
            try:
                mokapot.make_decoys(paths if len(paths) > 1 else paths[0], out, decoy_prefix=PREFIX, enzyme="[KR]",
                                    reverse=cfg["reverse"], concatenate=cfg["concatenate"])
            except Exception as ex:
                return dict(exception=repr(ex), violation="make_decoys raised %r" % (ex,))
        targets = [e for t in inp["files"] for e in _read_fasta_simple(t)]
        got = _read_fasta_simple(open(out).read())
        import mokapot.parsers.fasta as F
        reread = [list(F._parse_protein(e)) for e in F._parse_fasta_files(out)]
    viol = None
    n = len(targets)
    if reread != got:
        viol = "mokapot's own reader and an independent reader disagree on the written file"
    elif len(got) != (2 * n if cfg["concatenate"] else n):
        viol = "entry count %d for %d targets" % (len(got), n)
    elif cfg["concatenate"] and got[:n] != targets:
        viol = "targets not reproduced unchanged ahead of the decoys"
    else:
        dec = got[n:] if cfg["concatenate"] else got
        for (tn, ts), (dn, ds) in zip(targets, dec):
            viol = _check_decoy(tn, ts, dn, ds, "[KR]", cfg["reverse"])
            if viol:
                break
    return dict(outputs=None, violation=viol)


REAL = {"shuffle": real_shuffle, "roundtrip": real_roundtrip}
