"""C19 - PIN -> rectangular TSV conversion is lossless, order-preserving, idempotent;
is_valid_tsv is exact.

Real code executed symbolically: mokapot.parsers.pin_to_tsv.pin_to_valid_tsv,
convert_line_pin_to_tsv, parse_pin_header_columns, is_valid_tsv on tokenised lines
(every field an opaque atom of symbolic length)."""
import io

ID = "C19"
MAXP = 3


def setup():
    from symx import world
    world.import_mokapot_patched()
    return world.mod("mokapot.parsers.pin_to_tsv")


class _Out:
    def __init__(self):
        self.w = []

    def write(self, s):
        self.w.append(s)


class _In:
    """Text file opened for reading: iteration / readline() give the lines with their newline; read(size) gives the
    whole remainder when size is a block size (>= 4096; the files of this check are shorter than any block - stated),
    read() / read(-1) the whole remainder."""

    def __init__(self, text):
        self.lines, self.i = list(text), 0

    def __iter__(self):
        return self

    def __next__(self):
        if self.i >= len(self.lines):
            raise StopIteration
        self.i += 1
        return self.lines[self.i - 1]

    def readline(self, size=-1):
        from symx.items import TStr
        return next(self, TStr(""))

    def readlines(self):
        return list(self)

    def read(self, size=-1):
        from symx.items import TStr
        from symx.core import Unsupported
        if size is not None and 0 <= size < 4096:
            raise Unsupported("file.read(%r) with a size smaller than a block" % (size,))
        rest = list(self)
        return TStr("").join(rest) if rest else TStr("")

    def close(self):
        pass

    def __enter__(self):
        return self

    def __exit__(self, *a):
        return False


def _lines_iter(lines, trailing_nl):
    from symx.items import TStr
    text = [TStr(l + "\n") for l in lines]
    if not trailing_nl:
        text[-1] = TStr(lines[-1])
    return _In(text)


def sym(ctx, cfg):
    import z3
    from symx import items, core
    from symx.items import TStr
    from symx.core import SNum, SBool, PathOutcome, Unsupported
    T = setup()
    NF, NR = cfg["nf"], cfg["nr"]
    items.reset()
    ncol = NF + 2
    ppos = int(ctx.fresh_int("protein_col", 0, ncol - 1)) if cfg.get("ppos") is None else cfg["ppos"]
    header = [items.atom(name="h%d" % c, equals={"Proteins": False}, startswith={"DefaultDirection": False}) for c in range(ncol)]
    header[ppos] = TStr("Proteins")
    dd = bool(SBool(z3.Bool("has_defaultdirection")))
    nl = bool(SBool(z3.Bool("trailing_newline")))
    rows, nprots = [], []
    for r in range(NR):
        k = int(ctx.fresh_int("nprot%d" % r, 1, MAXP))
        nprots.append(k)
        fields = [items.atom(name="r%dc%d" % (r, c), startswith={"DefaultDirection": False}) for c in range(ncol)]
        prots = [items.atom(name="r%dp%d" % (r, j), startswith={"DefaultDirection": False}) for j in range(k)]
        rows.append((fields, prots))
    TAB, COLON = TStr("\t"), TStr(":")

    def pin_line(fields, prots):
        return TAB.join(fields[:ppos] + prots + fields[ppos + 1:])
    lines = [TAB.join(header)]
    if dd:
        lines.append(TAB.join([items.atom(name="DefaultDirection", startswith={"DefaultDirection": True})]
                              + [items.atom(name="dd%d" % c) for c in range(ncol - 1)]))
    lines += [pin_line(f, p) for f, p in rows]
    txt = TStr("\n").join(lines) + ("\n" if nl else "")
    inputs = dict(text=items.SymText(txt, _atom_text))
    out = _Out()
    try:
        T.pin_to_valid_tsv(_lines_iter(lines, nl), out, sep_column=TAB, sep_protein=COLON)
        got = [str.__str__(x) for x in out.w]
        valid_out = T.is_valid_tsv(_In([TStr(x) for x in out.w]), sep_column=TAB)
        out2 = _Out()
        T.pin_to_valid_tsv(_In([TStr(x) for x in out.w]), out2, sep_column=TAB, sep_protein=COLON)
        valid_in = T.is_valid_tsv(_lines_iter(lines, nl), sep_column=TAB)
    except Unsupported:
        raise
    except Exception as ex:
        return PathOutcome([], inputs, None, "exc", note=type(ex).__name__ + ":" + str(ex)[:80])
    exp = [str.__str__(lines[0]) + "\n"] + [str.__str__(TAB.join(f[:ppos] + [COLON.join(p)] + f[ppos + 1:])) + "\n" for f, p in rows]
    props = [
        ("lossless_same_header_one_line_per_psm_in_order", z3.BoolVal(got == exp)),
        ("output_is_valid", z3.BoolVal(valid_out is True)),
        ("idempotent", z3.BoolVal([str.__str__(x) for x in out2.w] == got)),
        ("validity_predicate", z3.BoolVal(valid_in == ((not dd) and all(k == 1 for k in nprots)))),
    ]
    outputs = dict(tsv=items.SymText("".join(got), _atom_text), valid_in=valid_in)
    return PathOutcome(props, inputs, outputs)


def _atom_text(idx, t, m):
    from symx import core
    n = t.get("name", "a%d" % idx)
    return n


def harnesses(tier):
    from symx.runner import Harness
    T = setup()
    hs = []
    nfmax, nrmax = (2, 2) if tier == "quick" else (3, 3)
    for nf in range(0, nfmax + 1):
        for nr in range(1, nrmax + 1):
            hs.append(Harness("pin2tsv[features=%d,rows=%d]" % (nf, nr), dict(nf=nf, nr=nr), sym, real="pin2tsv",
                              functions=[T.pin_to_valid_tsv, T.convert_line_pin_to_tsv, T.parse_pin_header_columns, T.is_valid_tsv],
                              bounds=dict(feature_columns=nf, rows=nr, proteins_per_row="1..%d" % MAXP),
                              stubs=["str -> tokenised string: every field an opaque atom (symx.items)", "file objects -> line iterators / list writer"],
                              assumptions=["fields are non-empty and contain no tab, newline, or outer whitespace (PIN format)",
                                           "only a DefaultDirection line starts with 'DefaultDirection'", "at least one PSM row"],
                              sample_rate=1.0))
    return hs


# ------------------------------------------------------------------ concrete --
def real_pin2tsv(cfg, inp):
    import mokapot.parsers.pin_to_tsv as T
    text = inp["text"]
    lines = text.split("\n")
    if lines and lines[-1] == "":
        lines = lines[:-1]
    hdr = lines[0].split("\t")
    ncol, ppos = len(hdr), hdr.index("Proteins")
    body = lines[1:]
    dd = body and body[0].startswith("DefaultDirection")
    if dd:
        body = body[1:]
    exp = [lines[0]]
    rect = True
    for l in body:
        f = l.split("\t")
        k = len(f) - ncol + 1
        if k != 1:
            rect = False
        exp.append("\t".join(f[:ppos] + [":".join(f[ppos:ppos + k])] + f[ppos + k:]))
    exp_text = "".join(x + "\n" for x in exp)
    try:
        out = io.StringIO()
        T.pin_to_valid_tsv(io.StringIO(text), out)
        got = out.getvalue()
        valid_out = T.is_valid_tsv(io.StringIO(got))
        out2 = io.StringIO()
        T.pin_to_valid_tsv(io.StringIO(got), out2)
        valid_in = T.is_valid_tsv(io.StringIO(text))
    except Exception as ex:
        return dict(exception=repr(ex), violation="raised %r on %r" % (ex, text))
    viol = None
    if got != exp_text:
        viol = "conversion of %r gave %r, expected %r" % (text, got, exp_text)
    elif valid_out is not True:
        viol = "output not recognised as valid: %r" % got
    elif out2.getvalue() != got:
        viol = "not idempotent: %r -> %r" % (got, out2.getvalue())
    elif valid_in != ((not dd) and rect):
        viol = "is_valid_tsv(%r) = %r" % (text, valid_in)
    return dict(outputs=dict(tsv=got, valid_in=valid_in), violation=viol)


REAL = {"pin2tsv": real_pin2tsv}
