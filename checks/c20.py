"""C20 - PepXML parsing turns every search hit into one faithful PSM.

Real code executed symbolically: mokapot.parsers.pepxml._parse_msms_run, _parse_spectrum,
_parse_psm over a pure-Python element stub. Symbolic: modification positions, lengths of
the mass strings, decoy-prefix flags of every protein, numeric attribute values, presence
of optional attributes. Replay goes through the real lxml parser (read_pepxml)."""
import os

ID = "C20"
PREFIX = "decoy_"


def setup():
    from symx import world, items
    world.import_mokapot_patched()
    X = world.mod("mokapot.parsers.pepxml")
    world.rebind(X, int=items.sym_int, float=items.sym_float, len=items.sym_len)
    return X


class El:
    """lxml element stub: get / tag / iter(*tags) in document order with {*} wildcard."""

    def __init__(self, tag, attrib=None, children=()):
        self.tag = "{http://regis-web.systemsbiology.net/pepXML}" + tag
        self.attrib = dict(attrib or {})
        self.children = list(children)

    def get(self, k, default=None):
        return self.attrib.get(k, default)

    def iter(self, *tags):
        names = [t.split("}")[-1] for t in tags]

        def walk(e):
            if not names or e.tag.split("}")[-1] in names:
                yield e
            for c in e.children:
                yield from walk(c)
        return walk(self)

    # direct children only (lxml: a path without '//' does not descend)
    def _kids(self, path):
        if "/" in path.replace("{*}", "").split("}")[-1] or path.startswith("."):
            from symx.core import Unsupported
            raise Unsupported("element path %r" % (path,))
        name = path.split("}")[-1]
        return [c for c in self.children if name == "*" or c.tag.split("}")[-1] == name]

    def find(self, path, namespaces=None):
        k = self._kids(path)
        return k[0] if k else None

    def findall(self, path, namespaces=None):
        return self._kids(path)

    def iterfind(self, path, namespaces=None):
        return iter(self._kids(path))

    def iterchildren(self, *tags):
        names = [t.split("}")[-1] for t in tags]
        return iter([c for c in self.children if not names or c.tag.split("}")[-1] in names])

    def __iter__(self):
        return iter(self.children)

    def __len__(self):
        return len(self.children)


def _num_text(idx, t, m):
    from symx import core
    from fractions import Fraction
    if "value" in t:
        v = core.eval_model(m, t["value"])
        if isinstance(v, Fraction):
            return repr(float(v))
        return str(v)
    if "len" in t:
        n = core.eval_model(m, t["len"])
        return "7" if n == 1 else "16" if n == 2 else "1." + "5" * (n - 2)
    if "startswith" in t and PREFIX in t["startswith"]:
        d = core.eval_model(m, t["startswith"][PREFIX])
        return (PREFIX if d else "") + t["name"]
    if "endswith" in t:
        ext, flag = list(t["endswith"].items())[0]
        return t["name"] + (ext if core.eval_model(m, flag) else "")
    return t.get("name", "a%d" % idx)


def sym(ctx, cfg):
    import z3
    from symx import items, core
    from symx.items import TStr
    from symx.core import SNum, SBool, PathOutcome, Unsupported
    X = setup()
    items.reset()
    L, NMOD, NALT = cfg["L"], cfg["mods"], cfg["alts"]
    shape = cfg["shape"]  # list of runs, each a list of spectra, each = number of hits
    ST = lambda s: items.SymText(s, _num_text)
    uid = [0]

    def numatom(name, real=False, lo=None, hi=None):
        uid[0] += 1
        z = (z3.Real if real else z3.Int)("%s_%d" % (name, uid[0]))
        if lo is not None:
            ctx.assume(z3.And(z >= lo, z <= hi))
        v = SNum(z, (lo, hi) if (lo is not None and not real) else None)
        return items.atom(name=name, value=v), v

    doc, runs_el, expected = [], [], []
    for ri, run in enumerate(shape):
        # base name = opaque stem + one symbolic last character (letter or digit, possibly one of the
        # extension's own letters) + optionally the extension itself
        ends = ctx.fresh_bool("base_name_has_ext")
        has_ext = ends is True or (ends is not False and bool(ends))
        zl = z3.Int("run%d_lastchar" % ri)
        ctx.assume(z3.Or(z3.And(zl >= 48, zl <= 57), z3.And(zl >= 65, zl <= 90), z3.And(zl >= 97, zl <= 122)))
        stem = items.atom(name="run%d_" % ri, tail_not_in=".mzML")
        base = items.TStr(stem + items.residue(SNum(zl, (48, 122))) + (".mzML" if has_ext else ""))
        jrun = dict(base_name=ST(base), raw_data=".mzML", spectra=[])
        fname = base if has_ext else base + ".mzML"
        spectra_el = []
        for si, nhits in enumerate(run):
            a_scan, v_scan = numatom("scan", lo=1, hi=10 ** 6)
            a_ch, v_ch = numatom("charge", lo=1, hi=6)
            a_rt, v_rt = numatom("rt", real=True)
            a_mass, v_mass = numatom("mass", real=True)
            jspec = dict(end_scan=ST(a_scan), assumed_charge=ST(a_ch), retention_time_sec=ST(a_rt), precursor_neutral_mass=ST(a_mass), hits=[])
            hits_el = []
            for hi_ in range(nhits):
                zc = [z3.Int("aa%d_%d_%d_%d" % (ri, si, hi_, i)) for i in range(L)]
                for z in zc:
                    ctx.assume(z3.And(z >= 65, z <= 90))
                pep = TStr("".join(str.__str__(items.residue(SNum(z, (65, 90)))) for z in zc))
                a_cm, v_cm = numatom("calc", real=True)

                def prot(name):
                    flag = ctx.fresh_bool("is_decoy")
                    return items.atom(name=name, startswith={PREFIX: flag}), flag
                p0, f0 = prot("PROT%d_%d_%d" % (ri, si, hi_))
                desc = bool(ctx.fresh_bool("protein_has_description")) if cfg.get("descr") else False
                attrib = dict(peptide=pep, calc_neutral_pep_mass=a_cm, protein=(p0 + " some description") if desc else p0)
                jhit = dict(peptide=ST(pep), calc_neutral_pep_mass=ST(a_cm), protein=ST(attrib["protein"]), alts=[], mods=[], scores=[], opt={})
                exp = dict(ms_data_file=ST(fname), scan=v_scan, charge=v_ch, ret_time=v_rt, exp_mass=v_mass, calc_mass=v_cm)
                for oname, key in (("num_missed_cleavages", "missed_cleavages"), ("num_tol_term", "ntt"), ("num_matched_peptides", "num_matched_peptides")):
                    if cfg.get("optional") and not bool(ctx.fresh_bool("has_" + oname)):
                        continue
                    a, v = numatom(oname, lo=0, hi=50)
                    attrib[oname] = a
                    jhit["opt"][oname] = ST(a)
                    exp[key] = v
                children = []
                prots, flags = [p0], [f0]
                rich = cfg.get("rich") is None or len(expected) in cfg["rich"]
                nalt = int(ctx.fresh_int("n_alt", 0, NALT)) if NALT and rich else 0
                for ai in range(nalt):
                    pa, fa = prot("ALT%d_%d_%d_%d" % (ri, si, hi_, ai))
                    children.append(El("alternative_protein", dict(protein=pa)))
                    jhit["alts"].append(ST(pa))
                    prots.append(pa)
                    flags.append(fa)
                nmod = int(ctx.fresh_int("n_mod", 0, min(NMOD, L))) if NMOD and rich else 0
                mods = []
                prev = 0
                for mi in range(nmod):
                    apos, vpos = numatom("position", lo=1, hi=L)
                    ctx.assume(vpos.z > prev)  # ascending positions (PepXML order)
                    pos = vpos
                    amass = items.atom(name="mass", len=ctx.fresh_int("masslen", 1, 9))
                    mods.append((apos, vpos, amass))
                    prev = vpos.z
                if nmod or cfg.get("empty_modinfo"):
                    children.append(El("modification_info", {}, [El("mod_aminoacid_mass", dict(position=a, mass=ms)) for a, _, ms in mods]))
                for a, _, ms in mods:
                    jhit["mods"].append(dict(position=ST(a), mass=ST(ms)))
                for sname in ("xcorr", "expect"):
                    if sname != "xcorr" and cfg.get("optional_scores") and not bool(ctx.fresh_bool("has_score_" + sname)):
                        continue  # a score that only some hits of a spectrum report
                    a, v = numatom(sname, real=True)
                    children.append(El("search_score", dict(name=sname, value=a)))
                    jhit["scores"].append(dict(name=sname, value=ST(a)))
                    exp[sname] = a
                hits_el.append(El("search_hit", attrib, children))
                jspec["hits"].append(jhit)
                expected.append((exp, pep, mods, prots, flags))
            # the schema allows several <search_result> elements per spectrum (one per search): with >= 2 hits the
            # hits may be spread over two of them (decided by the solver)
            split = len(hits_el) >= 2 and bool(ctx.fresh_bool("hits_in_two_search_results"))
            jspec["split_results"] = bool(split)
            results = [El("search_result", {}, hits_el[:1]), El("search_result", {}, hits_el[1:])] if split else [El("search_result", {}, hits_el)]
            spectra_el.append(El("spectrum_query", dict(end_scan=a_scan, assumed_charge=a_ch, retention_time_sec=a_rt, precursor_neutral_mass=a_mass), results))
            jrun["spectra"].append(jspec)
        runs_el.append(El("msms_run_summary", dict(base_name=base, raw_data=".mzML"), spectra_el))
        doc.append(jrun)
    inputs = dict(runs=doc)
    try:
        records = []
        for r in runs_el:
            for spec in X._parse_msms_run((None, r), decoy_prefix=PREFIX):
                for rec in spec:
                    records.append(rec)
    except Unsupported:
        raise
    except Exception as ex:
        return PathOutcome([], inputs, None, "exc", note=type(ex).__name__ + ":" + str(ex)[:80])
    props = [("one_record_per_hit", z3.BoolVal(len(records) == len(expected)))]
    out = []
    for k, (rec, (exp, pep, mods, prots, flags)) in enumerate(zip(records, expected)):
        # expected modified peptide: [mass] directly after each modified residue; positions concrete on this path?
        posv = [v for _, v, _ in mods]
        exp_pep = None
        if all(not isinstance(core.wrap(v.z), core.Sym) for v in posv):
            pass
        # positions were concretised by int() in the code under test; recover them from the path condition
        m = ctx.get_model()
        cp = [core.eval_model(m, v) for v in posv]
        s = str.__str__(pep)
        parts, last = [], 0
        for p, (_, v, ms) in zip(cp, mods):
            parts.append(s[last:p] + "[" + str.__str__(ms) + "]")
            last = p
        parts.append(s[last:])
        exp_pep = "".join(parts)
        same_pos = z3.And([v.z == p for v, p in zip(posv, cp)]) if posv else z3.BoolVal(True)
        props.append(("peptide%d" % k, z3.Implies(same_pos, z3.BoolVal(str.__str__(rec.get("peptide", "")) == exp_pep))))
        props.append(("proteins%d" % k, z3.BoolVal(str.__str__(rec.get("proteins", "")) == "\t".join(str.__str__(p) for p in prots))))
        lab = rec.get("label")
        is_decoy = z3.And([core.zbool(f) for f in flags])
        props.append(("label%d" % k, core.zbool(lab) == z3.Not(is_decoy) if isinstance(lab, (bool, core.SBool)) else z3.BoolVal(False)))
        for key, v in exp.items():
            got = rec.get(key, None)
            if isinstance(v, items.SymText):
                props.append(("%s%d" % (key, k), z3.BoolVal(got is not None and str.__str__(got) == str.__str__(v.s))))
            elif isinstance(v, str):
                props.append(("%s%d" % (key, k), z3.BoolVal(got is not None and str.__str__(got) == str.__str__(v))))
            else:
                props.append(("%s%d" % (key, k), (core._z(got) == v.z) if isinstance(got, (core.Sym, int)) and not isinstance(got, bool) else z3.BoolVal(False)))
        extra = set(rec) - set(exp) - {"peptide", "proteins", "label"}
        props.append(("no_extra_fields%d" % k, z3.BoolVal(not extra)))
        out.append(dict(peptide=ST(rec.get("peptide", "")), proteins=ST(rec.get("proteins", "")), label=lab,
                        scan=rec.get("scan"), charge=rec.get("charge"), ms_data_file=ST(rec.get("ms_data_file", ""))))
    return PathOutcome(props, inputs, out)


SCORE_NAMES = ["xcorr", "deltacn", "Percolator q-Value"]


def _files_doc(bits_f, fi):
    """one run / one spectrum / one hit per file; the hit carries the scores whose bit is set"""
    return dict(runs=[dict(base_name="file%d" % fi, raw_data=".mzML", spectra=[dict(
        end_scan=str(10 + fi), precursor_neutral_mass="1000.5", assumed_charge="2", retention_time_sec="12.5",
        hits=[dict(peptide="PEPTIDEK", protein="PROT%d" % fi, calc_neutral_pep_mass="1000.25", opt={}, alts=[], mods=[],
                   scores=[dict(name=n, value=str(1.5 + j + fi)) for j, n in enumerate(SCORE_NAMES) if bits_f[j]])])])])


def _files_verdict(bits, outcome):
    """-> violation text or None. bits[f][j]: file f carries score j; outcome: ('error', text) | ('ok', columns, nrows)"""
    perc = any(b[2] for b in bits)
    if outcome[0] == "error":
        if perc and "Percolator" in outcome[1]:
            return None
        return "read_pepxml raised %s for files with scores %s" % (outcome[1], [[n for n, b in zip(SCORE_NAMES, bf) if b] for bf in bits])
    cols, nrows = outcome[1], outcome[2]
    if perc:
        return "results produced by Percolator (score 'Percolator q-Value' in one of the files) were accepted: scores per file %s" % [[n for n, b in zip(SCORE_NAMES, bf) if b] for bf in bits]
    if nrows != len(bits):
        return "%d PSMs for %d search hits in %d files" % (nrows, len(bits), len(bits))
    for j, n in enumerate(SCORE_NAMES[:2]):
        if any(b[j] for b in bits) and n not in cols:
            return "search score %r (present in file(s) %s) is not among the columns %s" % (n, [f for f, b in enumerate(bits) if b[j]], list(cols))
    return None


def _files_run(read_pepxml, bits):
    import tempfile
    paths = []
    with tempfile.TemporaryDirectory(prefix="verif_c20f_") as d:
        for fi, bf in enumerate(bits):
            p = os.path.join(d, "f%d.pep.xml" % fi)
            open(p, "w").write(_xml(_files_doc(bf, fi)))
            paths.append(p)
        try:
            df = read_pepxml(paths, decoy_prefix=PREFIX, to_df=True)
        except Exception as ex:
            return ("error", "%s: %s" % (type(ex).__name__, str(ex)[:80]))
        return ("ok", [str(c) for c in df.columns], len(df))


def sym_files(ctx, cfg):
    """Several files with DIFFERENT sets of search scores (one of them possibly Percolator's): the frame-level
    part of read_pepxml (concatenation, rejection of Percolator results, feature columns) runs natively on
    real files; which file carries which score is decided by the solver (a bounded-exhaustive walk over the
    presence bits, as the property's own quantifier asks)."""
    import z3
    from symx.core import SBool, PathOutcome
    X = setup()
    F = cfg["files"]
    zb = [[z3.Bool("file%d_has_%d" % (f, j)) for j in range(len(SCORE_NAMES))] for f in range(F)]
    for f in range(F):
        ctx.assume(z3.Or(zb[f][0], zb[f][1]))  # every hit has at least one ordinary search score
    bits = [[bool(SBool(z)) for z in row] for row in zb]
    inputs = dict(bits=bits)
    import builtins
    saved = {k: X.__dict__.get(k) for k in ("int", "float", "len")}
    X.int, X.float, X.len = builtins.int, builtins.float, builtins.len  # this harness runs natively: no token strings
    try:
        outcome = _files_run(X.read_pepxml, bits)
    finally:
        for k, v_ in saved.items():
            if v_ is not None:
                X.__dict__[k] = v_
    v = _files_verdict(bits, outcome)
    return PathOutcome([("several_files_concatenated_scores_kept_percolator_rejected" + (": " + v if v else ""), z3.BoolVal(v is None))], inputs, None)


def real_files(cfg, inp):
    import mokapot
    bits = [[bool(x) for x in row] for row in inp["bits"]]
    v = _files_verdict(bits, _files_run(mokapot.read_pepxml, bits))
    return dict(outputs=None, violation=v)


def harnesses(tier):
    from symx.runner import Harness
    X = setup()
    hs = []
    base = dict(stubs=["lxml element -> pure-Python element (get/tag/iter in document order)", "str -> tokenised strings; int/float/len shadowed in mokapot.parsers.pepxml"],
                assumptions=["modification positions ascending within 1..L", "attribute values contain no whitespace except the protein description",
                             "DataFrame assembly, _log_features, charge one-hot outside the symbolic run (exercised concretely in the replay through read_pepxml)"])

    def add(name, cfg):
        hs.append(Harness(name, cfg, sym, real="pepxml", functions=[X._parse_msms_run, X._parse_spectrum, X._parse_psm],
                          bounds={k: v for k, v in cfg.items()}, sample_rate=1.0 if tier == "quick" else 0.2, **base))
    add("hit[L=3,mods<=2,alts<=2]", dict(L=3, mods=2, alts=2, shape=[[1]], descr=True))
    add("hit[L=2,mods<=2,alts<=1,optional attrs]", dict(L=2, mods=2, alts=1, shape=[[1]], optional=True))
    add("hit[L=4,mods<=3,alts=0,empty modinfo]", dict(L=4, mods=3, alts=0, shape=[[1]], empty_modinfo=True))
    add("doc[1 spectrum with 2 hits; optional attributes and scores per hit]", dict(L=2, mods=0, alts=0, shape=[[2]], optional=True, optional_scores=True))
    add("doc[2 runs: 2+1 spectra, hits 2,1,1; L=2,mods<=1,alts<=1]", dict(L=2, mods=1, alts=1, shape=[[2, 1], [1]], rich=[1]))
    for F in ((2,) if tier == "quick" else (2, 3)):
        hs.append(Harness("files[%d files with different score sets]" % F, dict(files=F), sym_files, real="files", functions=[X.read_pepxml, X._parse_pepxml], bounds=dict(files=F, scores=SCORE_NAMES),
                          stubs=["none: real lxml / pandas on real temporary files; the solver only decides which file carries which score"], assumptions=["one run, one spectrum, one hit per file"], sample_rate=0.2))
    if tier == "thorough":
        add("hit[L=5,mods<=3,alts<=3]", dict(L=5, mods=3, alts=3, shape=[[1]], descr=True))
        add("doc[2x2x2 hits; L=2,mods<=1,alts<=1]", dict(L=2, mods=1, alts=1, shape=[[2, 2], [2, 2]], rich=[2, 5]))
        add("hit[L=3,mods<=3,alts<=1,optional attrs,descr]", dict(L=3, mods=3, alts=1, shape=[[1]], optional=True, descr=True))
    return hs


# ------------------------------------------------------------------ concrete --
def _xml(doc):
    from xml.sax.saxutils import quoteattr as q
    o = ['<?xml version="1.0" encoding="UTF-8"?>',
         '<msms_pipeline_analysis xmlns="http://regis-web.systemsbiology.net/pepXML">']
    idx = 0
    for run in doc["runs"]:
        o.append('<msms_run_summary base_name=%s raw_data_type="raw" raw_data=%s>' % (q(run["base_name"]), q(run["raw_data"])))
        o.append('<search_summary base_name=%s search_engine="X"/>' % q(run["base_name"]))
        for sp in run["spectra"]:
            idx += 1
            o.append('<spectrum_query spectrum="s.%d" start_scan=%s end_scan=%s precursor_neutral_mass=%s assumed_charge=%s index="%d" retention_time_sec=%s>'
                     % (idx, q(sp["end_scan"]), q(sp["end_scan"]), q(sp["precursor_neutral_mass"]), q(sp["assumed_charge"]), idx, q(sp["retention_time_sec"])))
            o.append("<search_result>")
            for rank, h in enumerate(sp["hits"]):
                opt = "".join(" %s=%s" % (k, q(v)) for k, v in h["opt"].items())
                o.append('<search_hit hit_rank="%d" peptide=%s protein=%s calc_neutral_pep_mass=%s%s>' % (rank + 1, q(h["peptide"]), q(h["protein"]), q(h["calc_neutral_pep_mass"]), opt))
                for a in h["alts"]:
                    o.append('<alternative_protein protein=%s/>' % q(a))
                if h["mods"] or h.get("empty_modinfo"):
                    o.append("<modification_info>")
                    for md in h["mods"]:
                        o.append('<mod_aminoacid_mass position=%s mass=%s/>' % (q(md["position"]), q(md["mass"])))
                    o.append("</modification_info>")
                for s in h["scores"]:
                    o.append('<search_score name=%s value=%s/>' % (q(s["name"]), q(s["value"])))
                o.append("</search_hit>")
                if sp.get("split_results") and rank == 0:
                    o.append('</search_result><search_result search_id="2">')
            o.append("</search_result></spectrum_query>")
        o.append("</msms_run_summary>")
    o.append("</msms_pipeline_analysis>")
    return "\n".join(o)


def real_pepxml(cfg, inp):
    import tempfile
    import mokapot
    import mokapot.parsers.pepxml as X
    exp = []
    for run in inp["runs"]:
        fn = run["base_name"] if run["base_name"].endswith(run["raw_data"]) else run["base_name"] + run["raw_data"]
        for sp in run["spectra"]:
            for h in sp["hits"]:
                pep, last, parts = h["peptide"], 0, []
                for md in h["mods"]:
                    p = int(md["position"])
                    parts.append(pep[last:p] + "[" + md["mass"] + "]")
                    last = p
                parts.append(pep[last:])
                prots = [h["protein"].split(" ")[0]] + [a.split(" ")[0] for a in h["alts"]]
                e = dict(ms_data_file=fn, scan=int(sp["end_scan"]), charge=int(sp["assumed_charge"]), ret_time=float(sp["retention_time_sec"]),
                         exp_mass=float(sp["precursor_neutral_mass"]), calc_mass=float(h["calc_neutral_pep_mass"]), peptide="".join(parts),
                         proteins="\t".join(prots), label=not all(p.startswith(PREFIX) for p in prots))
                for k, key in (("num_missed_cleavages", "missed_cleavages"), ("num_tol_term", "ntt"), ("num_matched_peptides", "num_matched_peptides")):
                    if k in h["opt"]:
                        e[key] = int(h["opt"][k])
                for s in h["scores"]:
                    e[s["name"]] = float(s["value"])
                exp.append(e)
    with tempfile.TemporaryDirectory(prefix="verif_c20_") as d:
        p = os.path.join(d, "x.pep.xml")
        open(p, "w").write(_xml(inp))
        try:
            df = X._parse_pepxml(p, PREFIX)
        except Exception as ex:
            return dict(exception=repr(ex), violation="_parse_pepxml raised %r" % (ex,))
        try:
            full = mokapot.read_pepxml(p, decoy_prefix=PREFIX, to_df=True)
        except Exception as ex:
            full = ex
    viol = None
    recs = df.to_dict("records")
    if len(recs) != len(exp):
        viol = "%d records for %d hits" % (len(recs), len(exp))
    else:
        for k, (r, e) in enumerate(zip(recs, exp)):
            for key, v in e.items():
                g = r.get(key)
                if isinstance(v, float):
                    ok = g is not None and abs(float(g) - v) <= 1e-9 * max(1.0, abs(v))
                elif isinstance(v, bool):
                    ok = g is not None and bool(g) == v
                else:
                    ok = g is not None and (g == v or str(g) == str(v))
                if not ok:
                    viol = "hit %d: %s = %r, expected %r" % (k, key, g, v)
                    break
            if viol:
                break
            # a field the hit does not list must be missing (NaN in the frame), not inherited from another hit
            for key, g in r.items():
                if key not in e and not (g is None or (isinstance(g, float) and g != g)):
                    viol = "hit %d (%s) carries %s = %r although the file lists no such attribute / score for it (hits of the same spectrum: %s)" % (
                        k, e.get("peptide"), key, g, [x.get(key) for x in recs])
                    break
            if viol:
                break
    if viol is None and isinstance(full, Exception):
        # post-processing of read_pepxml is outside the symbolic claim, but a crash on a well-formed file is worth knowing
        # features with identical values etc. can legitimately fail in _log_features; do not count
        pass
    elif viol is None:
        if len(full) != len(exp) or list(full["peptide"]) != [e["peptide"] for e in exp] or [bool(x) for x in full["label"]] != [e["label"] for e in exp] \
                or list(full["proteins"]) != [e["proteins"] for e in exp]:
            viol = "read_pepxml(to_df=True) rows differ from the parsed hits"
    out = [dict(peptide=r.get("peptide"), proteins=r.get("proteins"), label=bool(r.get("label")), scan=int(r.get("scan")), charge=int(r.get("charge")),
                ms_data_file=str(r.get("ms_data_file"))) for r in recs]
    return dict(outputs=out, violation=viol)


REAL = {"pepxml": real_pepxml, "files": real_files}
