"""Shared harness for the checks that run the real mokapot.confidence.assign_confidence
symbolically on the VFS (C03, C05, C07, C09)."""


def setup():
    from symx import world, symnp, sympd, vfs, stubs, core
    world.import_mokapot_patched()
    C = world.mod("mokapot.confidence")
    W = world.mod("mokapot.confidence_writer")
    U = world.mod("mokapot.utils")
    T = world.mod("mokapot.tabular_data")
    D = world.mod("mokapot.dataset")
    Q = world.mod("mokapot.qvalues")
    _float = float
    world.rebind(C, np=symnp, pd=sympd, Parallel=stubs.SParallel, delayed=stubs.sdelayed, os=vfs.os_shim, str=s_str, float=s_float, int=s_int, all=lambda x: symnp.all(x) if hasattr(x, "items") else all_(x))
    world.rebind(W, np=symnp, pd=sympd)
    world.rebind(U, np=symnp, pd=sympd, pq=vfs.pq_stub, float=lambda x: x if isinstance(x, core.Sym) else _float(x))
    world.rebind(T, np=symnp, pd=sympd, pq=vfs.pq_stub, pa=vfs.pa_stub)
    world.rebind(D, np=symnp, pd=sympd)
    world.rebind(Q, np=symnp)
    for m in (C, W, U, T, D):  # Path(x).unlink() / .exists() / .glob() must reach the VFS like os.unlink does
        if "Path" in m.__dict__:
            m.__dict__["Path"] = vfs.VPath
    return C, W, U, T, D, Q


_str = str
all_ = all


def s_str(x):
    from symx import core
    if isinstance(x, list) and any(isinstance(v, core.Sym) for v in x):
        return core.SKey(x)
    return _str(x)


_float = float


def s_float(x=0.0):
    """float(): a symbolic number becomes a float64 - it keeps its value and renders WITH a decimal point"""
    import z3
    from symx import core
    if isinstance(x, core.SNum):
        z = z3.ToReal(x.z) if z3.is_int(x.z) else x.z
        return core.SNum(z, None, True)
    if isinstance(x, core.SBool):
        return core.ite(x, 1, 0)
    return _float(x)


s_float._symx_dtype = _float
_int = int


def s_int(x=0):
    """int(): a symbolic number keeps its (truncated) value and renders WITHOUT a decimal point"""
    import z3
    from symx import core
    if isinstance(x, core.SNum):
        if z3.is_int(x.z):
            return core.SNum(x.z, x.rng, False)
        z = x.z
        return core.SNum(z3.If(z >= 0, z3.ToInt(z), -z3.ToInt(-z)), None, False)
    if isinstance(x, core.SBool):
        return core.ite(x, 1, 0)
    return _int(x)


s_int._symx_dtype = _int


class PepRecorder:
    """Stub of peps_from_scores (PEP estimators are not applicable to this technique, C06):
    records its arguments and returns one fresh symbol per row."""

    def __init__(self, exit_without_decoys=True):
        self.calls = []
        self.exit_without_decoys = exit_without_decoys

    def __call__(self, scores, targets, algorithm="qvality"):
        import z3
        from symx import symnp, core
        if self.exit_without_decoys and algorithm == "qvality" and len(targets.items) and bool(core.s_and(*list(targets.items))):
            # contract of the kernel (probed: triqler via peps_from_scores): without a single decoy it leaves through
            # SystemExit with this message, which _assign_confidence catches
            raise SystemExit("ERROR: no decoy hits available for PEP calculation")
        k = len(self.calls)
        out = [core.SNum(z3.Real("pep%d_%d" % (k, j))) for j in range(len(scores))]
        self.calls.append((list(scores.items), list(targets.items), out))
        return symnp.SArray(list(out), symnp.float64)


def real_pep_stub(s, t, a="qvality"):
    """PEP routine of the replays (the real estimators cannot run on a handful of PSMs): constant 0.5, and - like the
    real qvality kernel - SystemExit when there is no decoy"""
    import numpy as np
    if a == "qvality" and len(t) and bool(np.all(np.asarray(t, dtype=bool))):
        raise SystemExit("ERROR: no decoy hits available for PEP calculation")
    return np.full(len(s), 0.5)


class PsmsStub:
    """The attributes of OnDiskPsmDataset that assign_confidence reads."""


def make_collection(ctx, n, cid=0, label_enc="bool", extra_level=False, suffix=".pin", tag="", mass_text=False):
    """One input table on the VFS + the dataset attributes assign_confidence uses."""
    import z3
    from symx import sympd, vfs, core
    from symx.core import SNum, SBool
    scan = [z3.Int("scan%s_%d_%d" % (tag, cid, i)) for i in range(n)]
    mass = [z3.Int("mass%s_%d_%d" % (tag, cid, i)) for i in range(n)]
    pep = [z3.Int("pep%s_%d_%d" % (tag, cid, i)) for i in range(n)]
    mod = [z3.Int("mod%s_%d_%d" % (tag, cid, i)) for i in range(n)]
    lab = [z3.Bool("t%s_%d_%d" % (tag, cid, i)) for i in range(n)]
    sc = [z3.Real("s%s_%d_%d" % (tag, cid, i)) for i in range(n)]
    if label_enc == "bool":
        labcol = [SBool(z) for z in lab]
    else:
        labcol = [core.ite(SBool(z), 1, -1 if label_enc == "pm1" else 0) for z in lab]
    path = vfs.VPath("/vfs/in/coll%d%s" % (cid, suffix))
    # mass_text: the user's text file writes each (integral) mass either as 500 or as 500.0 - a symbolic choice per cell
    massdec = [z3.Bool("massdec%s_%d_%d" % (tag, cid, i)) for i in range(n)] if mass_text else None
    cols = {"SpecId": ["c%d_psm%d" % (cid, i) for i in range(n)], "Label": labcol, "ScanNr": [SNum(z) for z in scan],
            "ExpMass": [SNum(z, None, SBool(d)) for z, d in zip(mass, massdec)] if mass_text else [SNum(z) for z in mass],
            "Peptide": [SNum(z) for z in pep]}
    if extra_level:
        cols["ModifiedPeptide"] = [SNum(z) for z in mod]
    cols["Proteins"] = ["prot%d_%d" % (cid, i) for i in range(n)]
    cols["feat"] = [0] * n
    vfs.put(path, sympd.DataFrame(cols))
    ps = PsmsStub()
    ps.filename = path
    ps.columns = list(cols)
    ps.target_column = "Label"
    ps.spectrum_columns = ["ScanNr", "ExpMass"]
    ps.peptide_column = "Peptide"
    ps.protein_column = "Proteins"
    ps.specId_column = "SpecId"
    ps.level_columns = ["Peptide"] + (["ModifiedPeptide"] if extra_level else [])
    ps.metadata_columns = [c for c in cols if c != "feat"]
    ps.metadata_column_types = ["str", "int", "int", "int", "int"] + (["int"] if extra_level else []) + ["str"]
    sym = dict(n=n, cid=cid, scan=scan, mass=mass, pep=pep, mod=mod, lab=lab, score=sc, extra=extra_level, path=path, massdec=massdec,
               ids=["c%d_psm%d" % (cid, i) for i in range(n)], prots=["prot%d_%d" % (cid, i) for i in range(n)])
    return ps, sym


def key_eq(s, i, j):
    import z3
    return z3.And(s["scan"][i] == s["scan"][j], s["mass"][i] == s["mass"][j])


def level_eq(s, level, i, j):
    if level == "psms":
        return key_eq(s, i, j)
    if level == "peptides":
        return s["pep"][i] == s["pep"][j]
    return s["mod"][i] == s["mod"][j]


def collection_inputs(syms):
    from symx.core import SNum, SBool
    return [dict(scan=[SNum(z) for z in s["scan"]], mass=[SNum(z) for z in s["mass"]], pep=[SNum(z) for z in s["pep"]], mod=[SNum(z) for z in s["mod"]],
                 labels=[SBool(z) for z in s["lab"]], scores=[SNum(z) for z in s["score"]], extra=s["extra"],
                 mass_dec=[SBool(z) for z in s["massdec"]] if s.get("massdec") else None) for s in syms]


def level_oracle(s, level, retained, base, higher_is_better=True):
    """z3 props: `retained` (row indices) is a correct choice of one best row per entity of
    `level` among the rows `base` (every row of base when level is 'all')."""
    import z3
    props = []
    sc = s["score"]
    better = (lambda a, b: a >= b) if higher_is_better else (lambda a, b: a <= b)
    if level == "all":
        props.append(("all_rows_retained", z3.BoolVal(sorted(retained) == sorted(base))))
        return props
    props.append(("%s_retained_subset_of_lower_level" % level, z3.BoolVal(all(i in base for i in retained) and len(set(retained)) == len(retained))))
    for a in retained:
        for b in retained:
            if a < b:
                props.append(("%s_rows_%d_%d_distinct_entities" % (level, a, b), z3.Not(level_eq(s, level, a, b))))
    for j in base:
        props.append(("%s_entity_of_row_%d_represented" % (level, j), z3.Or([level_eq(s, level, i, j) for i in retained]) if retained else z3.BoolVal(False)))
    for i in retained:
        for j in base:
            if j != i:
                props.append(("%s_row_%d_is_best_of_its_entity(vs %d)" % (level, i, j), z3.Implies(level_eq(s, level, i, j), better(sc[i], sc[j]))))
    return props
