"""Oracles written directly from the property statements (never by calling mokapot).
Symbolic versions build z3 terms; concrete versions use exact rationals."""
from fractions import Fraction


# ---------------------------------------------------------------- symbolic ----
def z_better_eq(a, b, desc):
    return a >= b if desc else a <= b


def spec_q_terms(scores, tgt, desc):
    """z3 Real terms q_i of the C01 formula. scores: z3 arith terms, tgt: z3 Bool terms.
    desc: python bool."""
    import z3
    n = len(scores)
    fdr = []
    for j in range(n):
        D = z3.Sum([z3.If(z3.And(z3.Not(tgt[k]), z_better_eq(scores[k], scores[j], desc)), 1, 0) for k in range(n)]) if n else z3.IntVal(0)
        T = z3.Sum([z3.If(z3.And(tgt[k], z_better_eq(scores[k], scores[j], desc)), 1, 0) for k in range(n)]) if n else z3.IntVal(0)
        f = z3.RealVal(1)
        for v in range(n, 0, -1):
            f = z3.If(T == v, z3.ToReal(D + 1) / v, f)
        f = z3.If(f > 1, z3.RealVal(1), f)
        fdr.append(f)
    qs = []
    for i in range(n):
        q = z3.RealVal(1)
        for j in range(n):
            # threshold at score j is "at or worse than" PSM i's own score
            q = z3.If(z3.And(z_better_eq(scores[i], scores[j], desc), fdr[j] < q), fdr[j], q)
        qs.append(q)
    return qs


def spec_labels_terms(qs, tgt, eval_fdr):
    import z3
    return [z3.If(z3.Not(t), z3.RealVal(-1), z3.If(q <= eval_fdr, z3.RealVal(1), z3.RealVal(0))) for q, t in zip(qs, tgt)]


# ---------------------------------------------------------------- concrete ----
def exact(x):
    if isinstance(x, bool):
        return Fraction(int(x))
    return Fraction(x)


def conc_q(scores, tgt, desc):
    n = len(scores)
    s = [exact(x) for x in scores]

    def be(a, b):
        return a >= b if desc else a <= b
    fdr = []
    for j in range(n):
        D = sum(1 for k in range(n) if not tgt[k] and be(s[k], s[j]))
        T = sum(1 for k in range(n) if tgt[k] and be(s[k], s[j]))
        f = Fraction(D + 1, T) if T else Fraction(1)
        fdr.append(min(f, Fraction(1)))
    return [min([fdr[j] for j in range(n) if be(s[i], s[j])] + [Fraction(1)]) for i in range(n)]


def conc_labels(qs, tgt, eval_fdr):
    """-> list of label or None where the comparison is within float32 rounding of the threshold"""
    e = exact(eval_fdr)
    out = []
    for q, t in zip(qs, tgt):
        if not t:
            out.append(-1)
        elif q != e and abs(q - e) <= Fraction(1, 2 ** 20) * max(abs(q), abs(e)):
            out.append(None)
        else:
            out.append(1 if q <= e else 0)
    return out
