#!/usr/bin/env python
"""Concrete replay of counterexamples / sampled paths against the UNPATCHED mokapot
(real numpy, pandas, numba, typeguard, joblib).

  replay.py --batch <ID> in.json out.json     (used by the checks)
  replay.py <replay.json>                     (manual: prints the verdict, exit 1 if it reproduces)
"""
import importlib
import json
import os
import sys
import traceback
import warnings

VERIF = os.path.dirname(os.path.abspath(__file__))
sys.path.insert(0, VERIF)
REPO = os.environ.get("VERIF_REPO", "/repo")
sys.path.insert(0, REPO)
warnings.filterwarnings("ignore")


def run_records(check_id, records):
    import logging
    logging.disable(logging.CRITICAL)
    mod = importlib.import_module("checks." + check_id.lower())
    import mokapot
    assert os.path.abspath(mokapot.__file__).startswith(os.path.abspath(REPO)), mokapot.__file__
    outs = []
    for rec in records:
        f = mod.REAL.get(rec.get("real"))
        if f is None:
            outs.append(dict(skip=True))
            continue
        try:
            cfg = rec["cfg"]
            if rec.get("failed") and isinstance(cfg, dict):
                cfg = dict(cfg, _failed=rec["failed"])
            outs.append(f(cfg, rec["inputs"]))
        except Exception as e:  # the replay function itself failed: not a verdict
            outs.append(dict(error="%s: %s" % (type(e).__name__, e), trace=traceback.format_exc()[-2000:]))
    return outs


def main():
    if sys.argv[1] == "--batch":
        _, _, cid, fin, fout = sys.argv
        outs = run_records(cid, json.load(open(fin)))
        json.dump(outs, open(fout, "w"), default=str)
        return 0
    rec = json.load(open(sys.argv[1]))
    out = run_records(rec["property_id"], [rec])[0]
    print(json.dumps(out, indent=1, default=str))
    if out.get("violation"):
        print("REPRODUCED property=%s: %s" % (rec["property_id"], out["violation"]))
        return 1
    print("not reproduced")
    return 0


if __name__ == "__main__":
    sys.exit(main())
