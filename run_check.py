#!/usr/bin/env python
"""./check <ID> [--tier quick|thorough] [--replay path]"""
import argparse
import importlib
import json
import os
import subprocess
import sys
import time

VERIF = os.path.dirname(os.path.abspath(__file__))
sys.path.insert(0, VERIF)


def main():
    ap = argparse.ArgumentParser()
    ap.add_argument("id")
    ap.add_argument("--tier", default=os.environ.get("VERIF_TIER", "quick"), choices=["quick", "thorough"])
    ap.add_argument("--replay")
    ap.add_argument("--only", help="substring filter on harness names (development)")
    a = ap.parse_args()
    cid = a.id.upper()
    if a.replay:
        return subprocess.call([sys.executable, os.path.join(VERIF, "replay.py"), a.replay])
    seed = int(os.environ.get("VERIF_SEED", "0") or 0)
    from symx import runner
    from symx import known
    import logging
    logging.disable(logging.CRITICAL)
    mod = importlib.import_module("checks." + cid.lower())
    hs = mod.harnesses(a.tier)
    if a.only:
        hs = [h for h in hs if a.only in h.name]
    extra = getattr(mod, "evidence_extra", lambda tier: None)(a.tier)
    pre = getattr(mod, "preflight", None)
    if pre is not None:
        msg = pre(a.tier)
        if msg:
            print("HARNESS-ERROR: preflight: " + msg)
            return runner.EXIT_HARNESS
    rc = runner.run_check(cid, hs, a.tier, seed, evidence_extra=extra,
                          budget_s=getattr(mod, "BUDGET", {}).get(a.tier))
    if rc == runner.EXIT_OK:
        rc = known.confirm_known(cid, mod)
    return rc


if __name__ == "__main__":
    rc = main()
    sys.stdout.flush()
    sys.stderr.flush()
    os._exit(rc)  # do not wait for multiprocessing clean-up (see runner._shutdown)
