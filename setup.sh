#!/bin/sh
# Build the overlay environment used by every check (offline).
set -e
cd "$(dirname "$0")"
if [ ! -x .venv/bin/python ] || ! .venv/bin/python -c "import z3, numpy" 2>/dev/null; then
  rm -rf .venv
  /venv/bin/python -m venv .venv
  SP=$(.venv/bin/python -c "import site; print(site.getsitepackages()[0])")
  echo "import site; site.addsitedir('/venv/lib/python3.12/site-packages')" > "$SP/overlay.pth"
  PIP_NO_INDEX=1 .venv/bin/pip install -q --no-index --find-links /opt/veriftools/wheels z3-solver cvc5 >/dev/null
fi
.venv/bin/python -c "import z3, numpy, pandas; print('setup ok: z3', z3.get_version_string())"
