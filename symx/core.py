"""symx core: forking symbolic execution of real Python functions over z3.

The code under test is executed natively by CPython; its inputs are proxy
objects around z3 terms.  A branch on a symbolic condition asks the solver
whether both outcomes are feasible under the current path condition and, if
so, forks.  Forking is realised by re-execution with a decision prefix (DART
style).  See /verif/DESIGN.md section 1.
"""
import os
import sys
import fractions
import time

import z3

Fraction = fractions.Fraction


class Abort(BaseException):
    """Path is infeasible / cut; not an `Exception` so code under test cannot catch it."""


class Inconclusive(BaseException):
    """Solver said unknown, or a budget was exhausted. Never a pass."""


class HarnessError(BaseException):
    """The harness itself is inconsistent (replay divergence, shim disagreement)."""


class Unsupported(Exception):
    """A shim was asked for an operation it does not model. The check ends
    inconclusive (exit 2) with the operation named."""


SOLVER_TIMEOUT_MS = 60000
RESET_HOOK = [None]  # called before every path (restores module-level state of the code under test)


class Ctx:
    cur = None

    def __init__(self, prefix=()):
        self.solver = z3.Solver()
        self.solver.set("timeout", SOLVER_TIMEOUT_MS)
        self.prefix = list(prefix)  # [(decision, fingerprint)]
        self.trace = []  # [(decision, has_alt, fingerprint)]
        self.pos = 0
        self.nq = 0
        self.tq = 0.0
        self.fresh = 0
        self.model = None
        self.notes = []  # free-form path annotations (choices of stubs, ...)
        self.assumed = []

    # -- solver access -------------------------------------------------
    def check(self, *extra):
        t = time.time()
        r = self.solver.check(*extra)
        if r == z3.unknown and self.solver.reason_unknown() in ("canceled", "timeout"):
            # the per-query time limit was hit (a loaded machine): one more attempt with four times the limit;
            # a second 'unknown' stays inconclusive - never a pass
            self.solver.set("timeout", 4 * SOLVER_TIMEOUT_MS)
            try:
                r = self.solver.check(*extra)
            finally:
                self.solver.set("timeout", SOLVER_TIMEOUT_MS)
        self.tq += time.time() - t
        self.nq += 1
        if r == z3.unknown:
            raise Inconclusive("solver returned unknown: " + self.solver.reason_unknown())
        return r

    def get_model(self):
        if self.model is None:
            if self.check() != z3.sat:
                raise Abort("infeasible path")
            self.model = self.solver.model()
        return self.model

    def assume(self, cond):
        """Add a precondition. Must be called before the code it constrains."""
        z = _z(cond)
        if z3.is_true(z):
            return
        self.solver.add(z)
        self.assumed.append(z)
        self.model = None

    def fresh_name(self, base):
        self.fresh += 1
        return "%s!%d" % (base, self.fresh)

    def fresh_bool(self, base="nd"):
        return SBool(z3.Bool(self.fresh_name(base)))

    def fresh_int(self, base, lo, hi):
        z = z3.Int(self.fresh_name(base))
        self.solver.add(z >= lo, z <= hi)
        self.model = None
        r = SNum(z)
        r.rng = (lo, hi)
        return r

    def fresh_real(self, base):
        return SNum(z3.Real(self.fresh_name(base)))

    # -- branching -----------------------------------------------------
    def decide(self, cond):
        cond = z3.simplify(cond)
        if z3.is_true(cond):
            return True
        if z3.is_false(cond):
            return False
        fp = fingerprint(cond)
        if self.pos < len(self.prefix):
            d, pfp = self.prefix[self.pos]
            if pfp != fp:
                raise HarnessError(
                    "replay divergence at decision %d: %s" % (self.pos, cond.sexpr()[:200])
                )
            self.pos += 1
            self.trace.append((d, False, fp))
            self.solver.add(cond if d else z3.Not(cond))
            self.model = None
            return d
        m = self.get_model()
        v = m.eval(cond, model_completion=True)
        if z3.is_true(v):
            can_t = True
            can_f = self.check(z3.Not(cond)) == z3.sat
        else:
            can_f = True
            can_t = self.check(cond) == z3.sat
            if can_t:
                # we take True first; the model just found satisfies it
                self.model = self.solver.model()
        if can_t:
            d = True
            alt = can_f
        else:
            d = False
            alt = False
        self.trace.append((d, alt, fp))
        self.pos += 1
        self.solver.add(cond if d else z3.Not(cond))
        if not can_t:
            pass  # cached model satisfies Not(cond) already
        return d


def fingerprint(e, depth=2):
    """Order-insensitive, depth-bounded structural hash of a condition. Only used to
    detect replay divergence; insensitive to argument order because z3's simplifier
    may order commutative arguments by AST id."""
    d = e.decl()
    n = e.num_args()
    if n == 0:
        return hash((d.kind(), str(e)))
    if depth == 0 or n > 8:
        return hash((d.kind(), n))
    hs = sorted(fingerprint(e.arg(i), depth - 1) for i in range(n))
    return hash((d.kind(), tuple(hs)))


class PathOutcome:
    """What a harness returns at the end of one path."""

    def __init__(self, props=(), inputs=None, outputs=None, kind="assert", note=None, prefer=()):
        self.prefer = list(prefer)  # soft preferences for counterexample models (e.g. distinct residues)
        self.props = list(props)  # [(name, z3 Bool)]
        self.inputs = inputs  # structure with Sym leaves (for concretisation)
        self.outputs = outputs  # structure with Sym leaves (expected real outputs)
        self.kind = kind  # 'assert' | 'legit_exc' | 'exc' (candidate violation)
        self.note = note
        if kind == "exc" and os.environ.get("VERIF_TRACE"):
            import traceback
            sys.stderr.write(traceback.format_exc())


def explore_job(fn, prefix, max_paths=200, max_seconds=20.0, on_path=None):
    """Explore the subtree below `prefix` depth-first. Stops after a budget and
    returns the unexplored sibling prefixes so that the master can requeue them.

    fn(ctx) -> PathOutcome.  on_path(ctx, outcome) -> optional dict (violation) to stop.
    """
    t0 = time.time()
    res = dict(paths=0, aborted=0, queries=0, solver_s=0.0, decisions=0, pending=[],
               violation=None, records=[])
    base = len(prefix)
    prefix = list(prefix)
    alts = [False] * base
    while True:
        ctx = Ctx(prefix)
        Ctx.cur = ctx
        outcome = None
        if RESET_HOOK[0] is not None:
            RESET_HOOK[0]()
        try:
            outcome = fn(ctx)
        except Abort:
            res["aborted"] += 1
        if outcome is not None:
            res["paths"] += 1
            stop = on_path(ctx, outcome, res) if on_path else None
            if stop:
                res["violation"] = stop
        res["queries"] += ctx.nq
        res["solver_s"] += ctx.tq
        res["decisions"] += len(ctx.trace)
        run_dec = [(t[0], t[2]) for t in ctx.trace]
        run_alts = alts + [t[1] for t in ctx.trace[len(alts):]]
        if len(run_dec) < len(prefix):
            if outcome is not None:
                raise HarnessError("path ended before its decision prefix was consumed")
            # aborted while replaying the prefix: keep bookkeeping consistent
            run_dec = prefix[:]
            run_alts = alts[:len(prefix)] + [False] * (len(prefix) - len(alts))
        if res["violation"]:
            break
        i = len(run_dec) - 1
        while i >= base and not run_alts[i]:
            i -= 1
        if i < base:
            break
        prefix = run_dec[:i] + [(not run_dec[i][0], run_dec[i][1])]
        alts = run_alts[:i] + [False]
        if res["paths"] + res["aborted"] >= max_paths or time.time() - t0 > max_seconds:
            # hand back every pending alternative (including the one just selected)
            pend = [prefix]
            for k in range(i - 1, base - 1, -1):
                if alts[k]:
                    pend.append(run_dec[:k] + [(not run_dec[k][0], run_dec[k][1])])
            res["pending"] = pend
            break
    Ctx.cur = None
    return res


# ---------------------------------------------------------------------------
# symbolic scalars
# ---------------------------------------------------------------------------
class Sym:
    pass


_SEQ = [0]


def _z(x):
    if isinstance(x, Sym):
        return x.z
    if isinstance(x, bool):
        return z3.BoolVal(x)
    if isinstance(x, int):
        return z3.IntVal(x)
    if isinstance(x, Fraction):
        return z3.RealVal(x)
    if isinstance(x, float):
        if x != x or x in (float("inf"), float("-inf")):
            raise Unsupported("non-finite float in symbolic arithmetic")
        return z3.RealVal(Fraction(x))
    if z3.is_expr(x):
        return x
    try:
        import numpy as _np
        if isinstance(x, _np.bool_):
            return z3.BoolVal(bool(x))
        if isinstance(x, _np.integer):
            return z3.IntVal(int(x))
        if isinstance(x, _np.floating):
            return z3.RealVal(Fraction(float(x)))
    except ImportError:
        pass
    raise TypeError("cannot lift %r to z3" % type(x))


def is_sym(x):
    return isinstance(x, Sym)


def rng_of(x):
    if isinstance(x, bool):
        return (int(x), int(x))
    if isinstance(x, int):
        return (x, x)
    if isinstance(x, SBool):
        return (0, 1)
    return getattr(x, "rng", None)


def wrap(z, rng=None):
    z = z3.simplify(z)
    if z3.is_bool(z):
        if z3.is_true(z):
            return True
        if z3.is_false(z):
            return False
        return SBool(z)
    if z3.is_int_value(z):
        return z.as_long()
    if z3.is_rational_value(z):
        return Fraction(z.numerator_as_long(), z.denominator_as_long())
    r = SNum(z)
    r.rng = rng
    return r


def _coerce(a, b):
    za, zb = _z(a), _z(b)
    if z3.is_bool(za):
        za = z3.If(za, 1, 0)
    if z3.is_bool(zb):
        zb = z3.If(zb, 1, 0)
    if za.sort() != zb.sort():
        if z3.is_int(za):
            za = z3.ToReal(za)
        if z3.is_int(zb):
            zb = z3.ToReal(zb)
    return za, zb


class SBool(Sym):
    __slots__ = ("z", "seq")

    def __init__(self, z):
        self.z = z
        _SEQ[0] += 1
        self.seq = _SEQ[0]

    def __bool__(self):
        return Ctx.cur.decide(self.z)

    def __and__(self, o):
        if isinstance(o, SArrayBase):
            return NotImplemented
        return wrap(z3.And(self.z, _zb(o)))

    __rand__ = __and__

    def __or__(self, o):
        if isinstance(o, SArrayBase):
            return NotImplemented
        return wrap(z3.Or(self.z, _zb(o)))

    __ror__ = __or__

    def __xor__(self, o):
        return wrap(z3.Xor(self.z, _zb(o)))

    __rxor__ = __xor__

    def __invert__(self):
        return wrap(z3.Not(self.z))

    def __eq__(self, o):
        if isinstance(o, SArrayBase):
            return NotImplemented
        try:
            zo = _z(o)
        except TypeError:
            return False
        if z3.is_bool(zo):
            return wrap(self.z == zo)
        a, b = _coerce(self, o)
        return wrap(a == b)

    def __ne__(self, o):
        r = self.__eq__(o)
        if r is NotImplemented:
            return r
        return (not r) if isinstance(r, bool) else ~r

    def __hash__(self):
        return 11

    def _n(self):
        r = SNum(z3.If(self.z, 1, 0))
        r.rng = (0, 1)
        return r

    def __add__(self, o):
        return self._n() + o

    __radd__ = __add__

    def __sub__(self, o):
        return self._n() - o

    def __rsub__(self, o):
        return o - self._n()

    def __mul__(self, o):
        return self._n() * o

    __rmul__ = __mul__

    def __lt__(self, o):
        return self._n() < o

    def __le__(self, o):
        return self._n() <= o

    def __gt__(self, o):
        return self._n() > o

    def __ge__(self, o):
        return self._n() >= o

    def __int__(self):
        return 1 if bool(self) else 0

    __index__ = __int__

    def __float__(self):
        raise Unsupported("float() of symbolic bool")

    def __repr__(self):
        return "SBool(%s)" % self.z


def _zb(o):
    z = _z(o)
    if not z3.is_bool(z):
        z = z != 0
    return z


class SArrayBase:
    __array_ufunc__ = None  # numpy scalars defer to the reflected operators of the shim arrays
    __array_priority__ = 1000
    pass


def _mulrng(x, y):
    c = [x[0] * y[0], x[0] * y[1], x[1] * y[0], x[1] * y[1]]
    return (min(c), max(c))


class SNum(Sym):
    __slots__ = ("z", "rng", "seq", "tag", "txt")

    def __init__(self, z, rng=None, txt=None):
        self.z = z
        self.rng = rng
        self.tag = None
        # txt: how the number is RENDERED as text - None (not tracked), or a bool / SBool "with a decimal
        # point" (a float64 cell prints as 500.0, an int64 cell as 500). Set by the CSV model of the VFS.
        self.txt = txt
        _SEQ[0] += 1
        self.seq = _SEQ[0]

    @property
    def is_int(self):
        return z3.is_int(self.z)

    def is_integer(self):
        """float.is_integer() / np.float64.is_integer()"""
        return True if z3.is_int(self.z) else SBool(z3.IsInt(self.z))

    def _r2(self, o, f):
        if f is None:
            return None
        a, b = rng_of(self), rng_of(o)
        return f(a, b) if a is not None and b is not None else None

    def _bin(self, o, f, rf=None):
        if isinstance(o, SArrayBase):
            return NotImplemented
        try:
            a, b = _coerce(self, o)
        except TypeError:
            return NotImplemented
        return wrap(f(a, b), self._r2(o, rf))

    def _rbin(self, o, f, rf=None):
        if isinstance(o, SArrayBase):
            return NotImplemented
        try:
            b, a = _coerce(self, o)
        except TypeError:
            return NotImplemented
        return wrap(f(a, b), self._r2(o, (lambda x, y: rf(y, x)) if rf else None))

    def __add__(self, o):
        return self._bin(o, lambda a, b: a + b, lambda x, y: (x[0] + y[0], x[1] + y[1]))

    def __radd__(self, o):
        return self._rbin(o, lambda a, b: a + b, lambda x, y: (x[0] + y[0], x[1] + y[1]))

    def __sub__(self, o):
        return self._bin(o, lambda a, b: a - b, lambda x, y: (x[0] - y[1], x[1] - y[0]))

    def __rsub__(self, o):
        return self._rbin(o, lambda a, b: a - b, lambda x, y: (x[0] - y[1], x[1] - y[0]))

    def __mul__(self, o):
        return self._bin(o, lambda a, b: a * b, _mulrng)

    def __rmul__(self, o):
        return self._rbin(o, lambda a, b: a * b, _mulrng)

    def __mod__(self, o):
        if isinstance(o, int) and not isinstance(o, bool) and o > 0 and self.is_int:
            return wrap(self.z % o, (0, o - 1))
        return self._bin(o, lambda a, b: a % b)

    def __rmod__(self, o):
        return self._rbin(o, lambda a, b: a % b)

    def __floordiv__(self, o):
        if isinstance(o, int) and not isinstance(o, bool) and o > 0 and self.is_int:
            r = rng_of(self)
            return wrap(self.z / o, (r[0] // o, r[1] // o) if r else None)
        return sdiv_floor(self, o)

    def __rfloordiv__(self, o):
        return sdiv_floor(o, self)

    def __neg__(self):
        r = rng_of(self)
        return wrap(-self.z, (-r[1], -r[0]) if r else None)

    def __pos__(self):
        return self

    def __abs__(self):
        return ite(self < 0, -self, self)

    def __pow__(self, k):
        if k == 2:
            return self * self
        raise Unsupported("pow %r" % (k,))

    def __truediv__(self, o):
        if isinstance(o, SArrayBase):
            return NotImplemented
        return sdiv(self, o)

    def __rtruediv__(self, o):
        return sdiv(o, self)

    def __lt__(self, o):
        return self._bin(o, lambda a, b: a < b)

    def __le__(self, o):
        return self._bin(o, lambda a, b: a <= b)

    def __gt__(self, o):
        return self._bin(o, lambda a, b: a > b)

    def __ge__(self, o):
        return self._bin(o, lambda a, b: a >= b)

    def __eq__(self, o):
        if o is None or isinstance(o, str):
            return False
        r = self._bin(o, lambda a, b: a == b)
        return False if r is NotImplemented and not isinstance(o, SArrayBase) else r

    def __ne__(self, o):
        if o is None or isinstance(o, str):
            return True
        r = self._bin(o, lambda a, b: a != b)
        return True if r is NotImplemented and not isinstance(o, SArrayBase) else r

    def __hash__(self):
        return 13

    def __bool__(self):
        return Ctx.cur.decide(self.z != 0)

    def __index__(self):
        if not self.is_int:
            raise TypeError("symbolic real used as an index")
        return concretize_int(self)

    def __int__(self):
        if self.is_int:
            return concretize_int(self)
        raise Unsupported("int() of symbolic real")

    def __float__(self):
        raise Unsupported("float() of symbolic number (C-level realisation)")

    def __round__(self, nd=None):
        raise Unsupported("round() of symbolic number")

    def __repr__(self):
        return "SNum(%s)" % self.z


def concretize_int(s):
    """Fork over the feasible values of a bounded symbolic int, ascending."""
    ctx = Ctx.cur
    r = rng_of(s)
    if r is None:
        raise Unsupported("concretisation of an unbounded symbolic int: %s" % s.z)
    for v in range(r[0], r[1] + 1):
        if v == r[1]:
            ctx.solver.add(s.z == v)
            ctx.model = None
            return v
        if ctx.decide(s.z == v):
            return v
    raise Abort("empty range")


def ite(c, a, b):
    if isinstance(c, bool):
        return a if c else b
    if a is b:
        return a
    za, zb = _z(a), _z(b)
    if z3.is_bool(za) and z3.is_bool(zb):
        return wrap(z3.If(_z(c), za, zb))
    za, zb = _coerce(a, b)
    ra, rb = rng_of(a), rng_of(b)
    r = (min(ra[0], rb[0]), max(ra[1], rb[1])) if ra is not None and rb is not None else None
    return wrap(z3.If(_z(c), za, zb), r)


TABLE_MAX = 24


def sdiv(x, y):
    """True division. Division by a bounded symbolic integer is table-encoded so that
    the solver never sees non-linear arithmetic. x/0 -> Unsupported path unless guarded
    by the caller (numpy semantics are handled in symnp.divide)."""
    if not isinstance(y, Sym):
        if isinstance(y, float):
            y = Fraction(y)
        if y == 0:
            raise ZeroDivisionError("division by zero")
        if isinstance(x, Sym):
            a, b = _coerce(x, y)
            if z3.is_int(a):
                a = z3.ToReal(a)
            if z3.is_int(b):
                b = z3.ToReal(b)
            return wrap(a / b)
        if isinstance(x, float):
            x = Fraction(x)
        return Fraction(x) / Fraction(y)
    if isinstance(y, SBool):
        y = y._n()
    if y.is_int:
        r = rng_of(y)
        if r is not None and r[1] - r[0] <= TABLE_MAX:
            res = 0
            for v in range(r[1], r[0] - 1, -1):
                if v == 0:
                    continue
                if isinstance(x, Sym):
                    q = sdiv(x, v)
                else:
                    q = Fraction(x) / v
                res = ite(y == v, q, res)
            return res
    if DIV_HOOK[0] is not None:
        DIV_HOOK[0](x, y)
    a, b = _coerce(x, y)
    if z3.is_int(a):
        a = z3.ToReal(a)
    if z3.is_int(b):
        b = z3.ToReal(b)
    return wrap(a / b)


import numbers as _numbers
_numbers.Real.register(SNum)  # isinstance(x, numbers.Real) holds for symbolic numbers as it does for numpy scalars

DIV_HOOK = [None]  # optional callable(x, y) run before a division by a symbolic (non-table) denominator


def sdiv_floor(x, y):
    if isinstance(y, Sym) and y.is_int and rng_of(y) is not None:
        r = rng_of(y)
        res = 0
        for v in range(r[1], r[0] - 1, -1):
            if v == 0:
                continue
            q = (x // v) if not isinstance(x, Sym) else wrap(_z(x) / v) if v > 0 else None
            if q is None:
                raise Unsupported("floor division by negative symbolic int")
            res = ite(y == v, q, res)
        return res
    raise Unsupported("floor division")


def smax(a, b):
    return ite(a >= b, a, b)


def smin(a, b):
    return ite(a <= b, a, b)


def s_and(*xs):
    r = True
    for x in xs:
        if x is False:
            return False
        if x is True:
            continue
        r = x if r is True else (r & x)
    return r


def s_or(*xs):
    r = False
    for x in xs:
        if x is True:
            return True
        if x is False:
            continue
        r = x if r is False else (r | x)
    return r


def s_not(x):
    return (not x) if isinstance(x, bool) else ~x


def zbool(x):
    """python bool / SBool -> z3 Bool"""
    return _zb(x)


class SKey:
    """Symbolic hash key: constant hash, symbolic (forking) equality. Used where the
    real code builds `str([...])`/tuple keys for dicts and sets."""

    def __init__(self, parts):
        self.parts = tuple(parts)

    def __hash__(self):
        return 7

    def eq_term(self, o):
        if not isinstance(o, SKey) or len(o.parts) != len(self.parts):
            return False
        conds = []
        for a, b in zip(self.parts, o.parts):
            conds.append(a == b)
            ta, tb = getattr(a, "txt", None), getattr(b, "txt", None)
            if ta is not None and tb is not None:
                # a key built from the TEXT of the values: 500 and 500.0 are different strings
                if isinstance(ta, bool) and isinstance(tb, bool):
                    conds.append(ta == tb)
                else:
                    conds.append(SBool(_z(ta) == _z(tb)))
        return s_and(*conds)

    def __eq__(self, o):
        return bool(self.eq_term(o))

    def __ne__(self, o):
        return not self.__eq__(o)

    def encode(self, *a):
        return self

    def __repr__(self):
        return "SKey%r" % (self.parts,)


# ---------------------------------------------------------------------------
# model evaluation / concretisation
# ---------------------------------------------------------------------------
def eval_model(m, x):
    """Evaluate a structure with Sym leaves under model m into plain Python values
    (bool / int / Fraction)."""
    if isinstance(x, Sym):
        v = m.eval(x.z, model_completion=True)
        return _val(v)
    if z3.is_expr(x):
        return _val(m.eval(x, model_completion=True))
    if isinstance(x, dict):
        return {k: eval_model(m, v) for k, v in x.items()}
    if isinstance(x, (list, tuple)):
        return [eval_model(m, v) for v in x]
    if hasattr(x, "__symx_eval__"):
        return x.__symx_eval__(m)
    return x


def _val(v):
    if z3.is_true(v):
        return True
    if z3.is_false(v):
        return False
    if z3.is_int_value(v):
        return v.as_long()
    if z3.is_rational_value(v):
        return Fraction(v.numerator_as_long(), v.denominator_as_long())
    if z3.is_algebraic_value(v):
        a = v.approx(20)
        return Fraction(a.numerator_as_long(), a.denominator_as_long())
    v2 = z3.simplify(v)
    if v2 is not v and (z3.is_int_value(v2) or z3.is_rational_value(v2) or z3.is_true(v2) or z3.is_false(v2)):
        return _val(v2)
    raise HarnessError("cannot evaluate %s under the model" % v)


def collect_reals(x, acc=None):
    """All free Real constants appearing in the Sym leaves of x."""
    if acc is None:
        acc = {}
    if isinstance(x, Sym):
        _free_consts(x.z, acc)
    elif z3.is_expr(x):
        _free_consts(x, acc)
    elif isinstance(x, dict):
        for v in x.values():
            collect_reals(v, acc)
    elif isinstance(x, (list, tuple)):
        for v in x:
            collect_reals(v, acc)
    return acc


def _free_consts(e, acc, seen=None):
    if seen is None:
        seen = set()
    todo = [e]
    while todo:
        t = todo.pop()
        i = t.get_id()
        if i in seen:
            continue
        seen.add(i)
        if z3.is_const(t) and t.decl().kind() == z3.Z3_OP_UNINTERPRETED:
            acc[t.decl().name()] = t
        else:
            todo.extend(t.children())


def nice_model(ctx, extra, inputs, prefer=()):
    """A model of path-condition AND extra in which every free Real input is a small
    dyadic rational (exactly representable as float32), if one exists; else any model.
    `prefer`: soft constraints tried first (dropped if unsatisfiable together)."""
    if prefer:
        m = nice_model(ctx, list(extra) + list(prefer), inputs)
        if m is not None:
            return m
        # not all at once: keep greedily every preference that is compatible with the ones kept so far
        kept = []
        for p in list(prefer)[:80]:
            ctx.solver.push()
            try:
                for e in list(extra) + kept + [p]:
                    ctx.solver.add(e)
                t = time.time()
                r = ctx.solver.check()
                ctx.tq += time.time() - t
                ctx.nq += 1
            finally:
                ctx.solver.pop()
            if r == z3.sat:
                kept.append(p)
        if kept:
            m = nice_model(ctx, list(extra) + kept, inputs)
            if m is not None:
                return m
    s = ctx.solver
    reals = [c for c in collect_reals(inputs).values() if z3.is_real(c)]
    for den, bound in ((1, 64), (8, 64), (64, 1024), (8, 2 ** 25)):
        s.push()
        try:
            for e in extra:
                s.add(e)
            for k, c in enumerate(reals):
                iv = z3.Int("nice!%d!%d" % (den, k))
                s.add(c == z3.ToReal(iv) / den, iv >= -bound * den, iv <= bound * den)
            t = time.time()
            r = s.check()
            ctx.tq += time.time() - t
            ctx.nq += 1
            if r == z3.sat:
                return s.model()
        finally:
            s.pop()
    s.push()
    try:
        for e in extra:
            s.add(e)
        if ctx.check() == z3.sat:
            return s.model()
    finally:
        s.pop()
    return None


def to_jsonable(x):
    if isinstance(x, Fraction):
        f = float(x)
        return f
    if isinstance(x, dict):
        return {str(k): to_jsonable(v) for k, v in x.items()}
    if isinstance(x, (list, tuple)):
        return [to_jsonable(v) for v in x]
    return x
