"""Tokenised strings: a `str` SUBCLASS whose payload is ordinary text in which every
symbolic part is one private-use code point (a *token*):

  residue token  - one character of symbolic content (SNum char code), length 1
  atom token     - an opaque field of symbolic length >= 1 that contains no separator,
                   whitespace or token-like text; optional symbolic flags
                   (startswith / equals) and an optional numeric value

Separator-based native operations ("\\t".join, split, splitlines, +, slicing of
residue strings) work unchanged at C level and merely move tokens around. Content-
or length-sensitive operations are overridden here or shadowed per module."""
import z3

from . import core
from .core import Sym, SBool, SNum, Unsupported, s_and, s_or, s_not

BASE = 0xE000
LIMIT = 0xF8FF


class Table:
    """Per-path token table."""
    cur = None

    def __init__(self):
        self.toks = []

    def new(self, **kw):
        if BASE + len(self.toks) > LIMIT:
            raise Unsupported("too many tokens")
        self.toks.append(kw)
        return TStr(chr(BASE + len(self.toks) - 1))


def reset():
    Table.cur = Table()
    return Table.cur


def is_tok(ch):
    return BASE <= ord(ch) <= LIMIT


def tok(ch):
    return Table.cur.toks[ord(ch) - BASE]


def tok_index(ch):
    return ord(ch) - BASE


def residue(sym, **kw):
    """new residue token for the symbolic char code `sym` (SNum int)"""
    return Table.cur.new(kind="res", sym=sym, **kw)


def atom(**kw):
    """new opaque atom; kw: len (SNum or int, default fresh >= 1), startswith {lit: bool/SBool},
    equals {lit: bool/SBool}, value (numeric), name"""
    return Table.cur.new(kind="atom", **kw)


def plain(s):
    return str.__str__(s) if isinstance(s, str) else s


def has_tokens(s):
    return any(is_tok(c) for c in str.__str__(s))


def ch_code(ch):
    """symbolic or concrete code of one character"""
    if is_tok(ch):
        t = tok(ch)
        if t["kind"] != "res":
            raise Unsupported("character code of an atom")
        return t["sym"]
    return ord(ch)


def ch_eq(a, b):
    ca, cb = ch_code(a), ch_code(b)
    if isinstance(ca, int) and isinstance(cb, int):
        return ca == cb
    return ca == cb if isinstance(ca, Sym) else cb == ca


def item_len(ch):
    if is_tok(ch):
        t = tok(ch)
        if t["kind"] == "atom":
            return t.get("len", 1)
    return 1


def slen(s):
    """length of the denoted string (symbolic if it contains atoms of symbolic length)"""
    n = 0
    for ch in str.__str__(s):
        n = item_len(ch) + n
    return n


def content_eq(a, b):
    """symbolic equality of the strings denoted by a and b"""
    a, b = str.__str__(a), str.__str__(b)
    if a == b:
        return True
    if not a or not b:
        return False      # every token denotes at least one character: a non-empty string never equals ""
    ta = any(is_tok(c) and tok(c)["kind"] == "atom" for c in a)
    tb = any(is_tok(c) and tok(c)["kind"] == "atom" for c in b)
    if ta or tb:
        return _atom_eq(a, b)
    if len(a) != len(b):
        return False
    return s_and(*[ch_eq(x, y) for x, y in zip(a, b)])


def _atom_eq(a, b):
    # single atom vs literal
    if len(a) == 1 and is_tok(a) and tok(a)["kind"] == "atom" and not has_tokens(b):
        return tok(a).get("equals", {}).get(b, False)
    if len(b) == 1 and is_tok(b) and tok(b)["kind"] == "atom" and not has_tokens(a):
        return tok(b).get("equals", {}).get(a, False)
    # general case: atoms are pairwise distinct opaque contents unless identical tokens
    raise Unsupported("equality between different atom strings %r %r" % (a, b))


class TStr(str):
    """str subclass carrying tokens. All str-returning operations re-wrap into TStr."""

    def __getitem__(self, k):
        return TStr(str.__getitem__(self, k))

    def __add__(self, o):
        if not isinstance(o, str):
            return NotImplemented
        return TStr(str.__add__(self, o))

    def __radd__(self, o):
        if not isinstance(o, str):
            return NotImplemented
        return TStr(str.__add__(o, self))

    def __mul__(self, k):
        return TStr(str.__mul__(self, k))

    def __mod__(self, a):
        return TStr(str.__mod__(self, a))

    def __iter__(self):
        return iter([TStr(c) for c in str.__str__(self)])

    def join(self, it):
        return TStr(str.join(self, list(it)))

    def split(self, sep=None, maxsplit=-1):
        if sep is None:
            _no_ws_tokens(self)
        return [TStr(p) for p in str.split(self, sep, maxsplit)]

    def rsplit(self, sep=None, maxsplit=-1):
        return [TStr(p) for p in str.rsplit(self, sep, maxsplit)]

    def splitlines(self, keepends=False):
        return [TStr(p) for p in str.splitlines(self, keepends)]

    def strip(self, chars=None):
        # atoms/residues are assumed free of outer whitespace (precondition): native strip is exact
        if chars is not None and has_tokens(str.__str__(self)):
            return self.lstrip(chars).rstrip(chars)
        return TStr(str.strip(self, chars))

    def rstrip(self, chars=None):
        s = str.__str__(self)
        if chars is None or not has_tokens(s):
            return TStr(str.rstrip(self, chars))
        # rstrip(chars) removes every trailing character that is a MEMBER of chars (a set, not a suffix)
        chars = plain(chars)
        i = len(s)
        while i > 0:
            ch = s[i - 1]
            if not is_tok(ch):
                if ch in chars:
                    i -= 1
                    continue
                break
            t = tok(ch)
            if t["kind"] == "res":
                c = s_or(*[ch_eq(ch, x) for x in chars])
                if c if isinstance(c, bool) else bool(c):
                    i -= 1
                    continue
                break
            tn = t.get("tail_not_in")
            if tn is not None and all(x in tn for x in chars):
                break  # the opaque field is declared not to end in any of these characters
            raise Unsupported("rstrip(%r) reaching an opaque field" % (chars,))
        return TStr(s[:i])

    def lstrip(self, chars=None):
        s = str.__str__(self)
        if chars is None or not has_tokens(s):
            return TStr(str.lstrip(self, chars))
        # lstrip(chars) removes every leading character that is a MEMBER of chars (a set, not a prefix)
        chars = plain(chars)
        i = 0
        while i < len(s):
            ch = s[i]
            if not is_tok(ch):
                if ch in chars:
                    i += 1
                    continue
                break
            t = tok(ch)
            if t["kind"] == "res":
                c = s_or(*[ch_eq(ch, x) for x in chars])
                if c if isinstance(c, bool) else bool(c):
                    i += 1
                    continue
                break
            raise Unsupported("lstrip(%r) reaching an opaque field" % (chars,))
        return TStr(s[i:])

    def replace(self, old, new, count=-1):
        if has_tokens(self) and not has_tokens(old):
            # a literal cannot occur inside an opaque token by precondition only if it is a separator
            if any(c.isalnum() for c in old):
                raise Unsupported("replace of content-bearing literal %r in a tokenised string" % old)
        return TStr(str.replace(self, old, new, count))

    def __str__(self):
        return self

    def __repr__(self):
        return "TStr(%s)" % str.__repr__(self)

    def __format__(self, spec):
        return TStr(str.__format__(self, spec))

    def startswith(self, p, *a):
        if a:
            raise Unsupported("startswith with offsets")
        if isinstance(p, tuple):
            return s_or(*[self.startswith(x) for x in p])
        s = str.__str__(self)
        if not has_tokens(s) and not has_tokens(p):
            return str.startswith(s, p)
        if p == "":
            return True
        if s and is_tok(s[0]) and tok(s[0])["kind"] == "atom":
            fl = tok(s[0]).get("startswith", {})
            if plain(p) in fl:
                return fl[plain(p)]
            raise Unsupported("startswith(%r) on an atom without that flag" % p)
        conds = []
        for i, pc in enumerate(p):
            if i >= len(s):
                return False
            sc = s[i]
            if is_tok(sc) and tok(sc)["kind"] == "atom" or is_tok(pc) and tok(pc)["kind"] == "atom":
                if sc == pc:
                    continue
                raise Unsupported("startswith across atoms")
            c = ch_eq(sc, pc)
            if c is False:
                return False
            conds.append(c)
        return s_and(*conds)

    def endswith(self, p, *a):
        s = str.__str__(self)
        if not has_tokens(s) and not has_tokens(p):
            return str.endswith(s, p)
        if p == "":
            return True
        if any(is_tok(c) and tok(c)["kind"] == "atom" for c in s[-len(p):]):
            conds, k, j = [], len(p), len(s)
            while k > 0:
                if j == 0:
                    return False
                ch = s[j - 1]
                if is_tok(ch) and tok(ch)["kind"] == "atom":
                    t = tok(ch)
                    rem = plain(p[:k])
                    fl = t.get("endswith", {})
                    if rem in fl:
                        conds.append(fl[rem])
                        break
                    tn = t.get("tail_not_in")
                    if tn is not None and not is_tok(rem[-1]) and rem[-1] in tn:
                        return False
                    raise Unsupported("endswith(%r) on an atom" % p)
                conds.append(ch_eq(ch, p[k - 1]))
                k -= 1
                j -= 1
            return s_and(*conds)
        if len(p) > len(s):
            return False
        return s_and(*[ch_eq(x, y) for x, y in zip(s[-len(p):], p)])

    def __eq__(self, o):
        if not isinstance(o, str):
            return False
        return content_eq(self, o)

    def __ne__(self, o):
        return s_not(self.__eq__(o))

    __hash__ = str.__hash__

    def __contains__(self, sub):
        s = str.__str__(self)
        if not has_tokens(s) and not has_tokens(sub):
            return str.__contains__(s, sub)
        if str.__contains__(s, str.__str__(sub)):
            return True
        if len(sub) == 1 and not is_tok(sub):
            if not sub.isalnum():
                # separators never occur inside tokens (precondition)
                return False
            if all((not is_tok(c)) or tok(c)["kind"] == "res" for c in s):
                return bool(s_or(*[ch_eq(c, sub) for c in s]))
        raise Unsupported("substring test %r in tokenised string" % (sub,))

    def upper(self):
        if has_tokens(self):
            raise Unsupported("upper() of a tokenised string")
        return TStr(str.upper(self))

    def lower(self):
        if has_tokens(self):
            raise Unsupported("lower() of a tokenised string")
        return TStr(str.lower(self))

    def encode(self, *a, **k):
        raise Unsupported("encode() of a tokenised string (C-level realisation)")

    def __lt__(self, o):
        raise Unsupported("ordering comparison of tokenised strings")

    __gt__ = __le__ = __ge__ = __lt__


def _no_ws_tokens(s):
    return True


def wrap_result(x):
    if isinstance(x, str) and not isinstance(x, TStr):
        return TStr(x)
    return x


def concretize_str(s, m, atom_text=None):
    """Concrete text denoted by the tokenised string s under model m."""
    out = []
    for ch in str.__str__(s):
        if is_tok(ch):
            t = tok(ch)
            if t["kind"] == "res":
                out.append(chr(core.eval_model(m, t["sym"])))
            else:
                out.append(atom_text(tok_index(ch), t, m) if atom_text else "a%d" % tok_index(ch))
        else:
            out.append(ch)
    return "".join(out)


class SymText:
    """Wrapper so that core.eval_model concretises tokenised strings in `inputs`/`outputs`."""

    def __init__(self, s, atom_text=None):
        self.s = s
        self.toks = Table.cur
        self.atom_text = atom_text

    def __symx_eval__(self, m):
        old = Table.cur
        Table.cur = self.toks
        try:
            return concretize_str(self.s, m, self.atom_text)
        finally:
            Table.cur = old


# ---------------------------------------------------------------------------
# per-module shadows of builtins for modules that handle tokenised strings
# ---------------------------------------------------------------------------
_int, _float, _len = int, float, len


class CutInsideAtom(Exception):
    """The code under test cut a string at an offset that falls strictly inside an
    opaque field: candidate violation (decided by replay)."""


def _single_atom(x):
    s = str.__str__(x)
    if _len(s) == 1 and is_tok(s) and tok(s)["kind"] == "atom":
        return tok(s)
    return None


def sym_int(x=0, *a):
    if isinstance(x, Sym):
        return x if isinstance(x, SNum) and x.is_int else _int(x)
    if isinstance(x, str):
        t = _single_atom(x)
        if t is not None:
            if "value" not in t:
                raise ValueError("invalid literal for int() with base 10: %r" % t.get("name"))
            return t["value"]
    return _int(x, *a)


def sym_float(x=0.0):
    if isinstance(x, Sym):
        return x
    if isinstance(x, str):
        t = _single_atom(x)
        if t is not None:
            if "value" not in t:
                raise ValueError("could not convert string to float: %r" % t.get("name"))
            return t["value"]
    return _float(x)


def sym_len(x):
    if isinstance(x, TStr) or (isinstance(x, str) and has_tokens(x)):
        return slen(x)
    return _len(x)


def _locate(s, pos):
    """index into the item list of s at which the denoted offset `pos` falls; symbolic
    offsets are located by asking the solver which item boundary they equal."""
    n = _len(s)
    if not isinstance(pos, Sym):
        if all(not isinstance(item_len(c), Sym) and item_len(c) == 1 for c in s):
            return pos
        p = pos
        if p < 0:
            raise Unsupported("negative offset into a string with atoms")
    cum = [0]
    for c in s:
        cum.append(item_len(c) + cum[-1])
    ctx = core.Ctx.cur
    # past the end -> clamp like Python slicing
    for k in range(n + 1):
        c = (pos == cum[k])
        if c is True:
            return k
        if c is False:
            continue
        if ctx.decide(core._z(c)):
            return k
    beyond = pos > cum[n]
    if beyond is True or (beyond is not False and ctx.decide(core._z(beyond))):
        return n
    raise CutInsideAtom("offset %s falls inside an opaque field of %r" % (pos, s))


_old_getitem = TStr.__getitem__


def _getitem(self, k):
    if isinstance(k, slice) and (isinstance(k.start, Sym) or isinstance(k.stop, Sym)
                                 or (has_tokens(self) and any(isinstance(item_len(c), Sym) for c in str.__str__(self)))):
        if k.step is not None:
            raise Unsupported("stepped slice of a tokenised string")
        s = str.__str__(self)
        a = 0 if k.start is None else _locate(s, k.start)
        b = _len(s) if k.stop is None else _locate(s, k.stop)
        return TStr(s[a:b])
    if isinstance(k, Sym):
        k = _int(k)
    return _old_getitem(self, k)


TStr.__getitem__ = _getitem
