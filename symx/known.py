"""Known findings: genuine defects of mokapot recorded in /verif/known_findings.json.

Each entry: {"property": id, "status": "open"|"fixed", "what": text, "real": replay kind,
"cfg": ..., "inputs": ...}. Open entries are excluded from the symbolic run by an
assumption stated in the harness and are re-confirmed here by replaying the recorded
concrete input on the unpatched code. Fixed entries suppress nothing."""
import json
import os

from . import runner

PATH = os.path.join(runner.VERIF, "known_findings.json")


def load(cid=None):
    if not os.path.exists(PATH):
        return []
    fs = json.load(open(PATH))["findings"]
    return [f for f in fs if cid is None or f["property"] == cid]


def open_keys(cid):
    return {f["key"] for f in load(cid) if f.get("status") == "open"}


def confirm_known(cid, mod):
    fs = [f for f in load(cid) if f.get("status") == "open"]
    if not fs:
        return runner.EXIT_OK
    outs = runner.run_real(cid, [dict(real=f["real"], cfg=f["cfg"], inputs=f["inputs"]) for f in fs])
    for f, o in zip(fs, outs):
        if o.get("violation"):
            print("KNOWN-FINDING: property=%s %s [%s]" % (cid, f["what"], f["key"]))
        elif o.get("error"):
            print("HARNESS-ERROR: replay of known finding %s failed: %s" % (f["key"], o["error"]))
            return runner.EXIT_HARNESS
        else:
            print("note: known finding %s no longer reproduces on this tree (entry kept; it suppresses nothing now)" % f["key"])
    return runner.EXIT_OK
