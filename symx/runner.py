"""Parallel driver: distributes decision prefixes over worker processes, decides the
oracle queries at the end of each path, replays counterexamples on the unpatched
code, validates sampled paths against the real libraries and writes evidence."""
import hashlib
import inspect
import json
import multiprocessing as mp
import os
import random
import subprocess
import sys
import tempfile
import time
import traceback

import z3

from . import core
from .core import Ctx, PathOutcome, Inconclusive, HarnessError, Unsupported, Abort

VERIF = os.path.dirname(os.path.dirname(os.path.abspath(__file__)))
NPROC = int(os.environ.get("VERIF_NPROC", "16"))

EXIT_OK, EXIT_VIOLATION, EXIT_INCONCLUSIVE, EXIT_HARNESS = 0, 1, 2, 3


class Harness:
    """One symbolic harness = one root of the exploration tree.

    name      unique within the check
    cfg       JSON-able configuration (bounds etc.)
    sym       callable(ctx, cfg) -> PathOutcome  (runs the REAL code in the shimmed world)
    real      name of the replay function (in checks/<id>.py REAL dict) run on unpatched code
    functions real function objects executed (hashed into the evidence)
    """

    def __init__(self, name, cfg, sym, real=None, functions=(), bounds=None, stubs=(),
                 assumptions=(), sample_rate=None, expect_reach=True, validate_exc=True):
        self.name = name
        self.cfg = cfg
        self.sym = sym
        self.real = real
        self.functions = list(functions)
        self.bounds = bounds or {}
        self.stubs = list(stubs)
        self.assumptions = list(assumptions)
        self.sample_rate = sample_rate
        self.expect_reach = expect_reach
        self.validate_exc = validate_exc  # False where the replay cannot impose the stub's random choices


_H = {}  # name -> Harness, filled before fork
_SEED = [0]
_SAMPLE_RATE = [1.0]
_CROSS = [0.01, 2, 5000]  # (probability, cap per job, timeout ms) of re-deciding a discharged query with cvc5


def cvc5_check(smt2, timeout_ms=20000):
    """Decide an SMT-LIB script with the cvc5 wheel; returns 'sat' / 'unsat' / 'unknown'."""
    import cvc5
    slv = cvc5.Solver()
    slv.setOption("tlimit-per", str(timeout_ms))
    slv.setLogic("ALL")
    p = cvc5.InputParser(slv)
    p.setStringInput(cvc5.InputLanguage.SMT_LIB_2_6, smt2, "query")
    sm = p.getSymbolManager()
    res = "unknown"
    while True:
        cmd = p.nextCommand()
        if cmd.isNull():
            break
        out = str(cmd.invoke(slv, sm)).strip()
        if out in ("sat", "unsat", "unknown"):
            res = out
        elif out.startswith("(error"):
            return "error"
    return res


def _on_path(h):
    def on_path(ctx, out, res):
        st = res.setdefault("stat", {})
        st[out.kind] = st.get(out.kind, 0) + 1
        if out.note:
            nn = res.setdefault("notes", {})
            nn[out.note] = nn.get(out.note, 0) + 1
        if out.kind == "exc":
            # unexpected exception on an input satisfying the premise: candidate violation
            m = core.nice_model(ctx, [], out.inputs, out.prefer)
            if m is None:
                raise Abort("infeasible")
            return dict(harness=h.name, real=h.real, cfg=h.cfg, failed=["exception:" + (out.note or "")],
                        inputs=core.to_jsonable(core.eval_model(m, out.inputs)),
                        expected=None, path_note=list(ctx.notes))
        if out.kind == "assert" and out.props:
            res["reached"] = res.get("reached", 0) + 1
            res["obligations"] = res.get("obligations", 0) + len(out.props)
            conj = z3.And([p for _, p in out.props]) if len(out.props) > 1 else out.props[0][1]
            r = ctx.check(z3.Not(conj))
            if r == z3.unsat and res.get("cross", 0) < _CROSS[1]:
                rnd2 = random.Random(hash((_SEED[0], "cross", h.name, tuple(d for d, _ in ctx.prefix), res["paths"])))
                if rnd2.random() < _CROSS[0]:
                    s2 = z3.Solver()
                    s2.add(ctx.solver.assertions())
                    s2.add(z3.Not(conj))
                    try:
                        ans = cvc5_check(s2.to_smt2(), _CROSS[2])
                    except Exception as e:  # parser/feature gap of the second solver: recorded, not a verdict
                        ans = "error"
                    res["cross"] = res.get("cross", 0) + 1
                    cc = res.setdefault("cross_results", {})
                    cc[ans] = cc.get(ans, 0) + 1
                    if ans == "sat":
                        raise Inconclusive("z3 says unsat, cvc5 says sat on an oracle query of harness %s" % h.name)
            if r == z3.sat:
                failed = []
                m = core.nice_model(ctx, [z3.Not(conj)], out.inputs, out.prefer)
                for n, p in out.props:
                    if not z3.is_true(m.eval(p, model_completion=True)):
                        failed.append(n)
                return dict(harness=h.name, real=h.real, cfg=h.cfg, failed=failed,
                            inputs=core.to_jsonable(core.eval_model(m, out.inputs)),
                            expected=core.to_jsonable(core.eval_model(m, out.outputs)) if out.outputs is not None else None,
                            path_note=list(ctx.notes))
        # sample this path for validation against the real libraries
        rate = h.sample_rate if h.sample_rate is not None else _SAMPLE_RATE[0]
        if h.real and out.inputs is not None and len(res["records"]) < 40:
            rnd = random.Random(hash((_SEED[0], h.name, tuple(d for d, _ in ctx.prefix), res["paths"])))
            if rnd.random() < rate:
                m = core.nice_model(ctx, [], out.inputs)
                if m is not None:
                    res["records"].append(dict(
                        harness=h.name, real=h.real, cfg=h.cfg, kind=out.kind, note=out.note,
                        inputs=core.to_jsonable(core.eval_model(m, out.inputs)),
                        expected=core.to_jsonable(core.eval_model(m, out.outputs)) if out.outputs is not None else None))
        return None
    return on_path


def _job(args):
    hname, prefix, max_paths, max_seconds = args
    h = _H[hname]
    from . import world
    core.RESET_HOOK[0] = world.restore_state
    try:
        res = core.explore_job(lambda ctx: h.sym(ctx, h.cfg), prefix, max_paths, max_seconds, _on_path(h))
        res["harness"] = hname
        return res
    except Inconclusive as e:
        return dict(harness=hname, error="inconclusive", detail=str(e))
    except Unsupported as e:
        return dict(harness=hname, error="unsupported", detail=str(e) + "\n" + traceback.format_exc()[-1500:])
    except HarnessError as e:
        return dict(harness=hname, error="harness", detail=str(e))
    except Exception as e:  # bug in harness code outside the guarded region
        return dict(harness=hname, error="harness", detail="%s: %s\n%s" % (type(e).__name__, e, traceback.format_exc()[-3000:]))


def _die_with_parent():
    """Workers must not outlive the master (an orphan keeps the check's stdout pipe open, and the
    pool respawns workers that are killed): ask the kernel for SIGKILL when the parent goes."""
    try:
        import ctypes
        import signal
        ctypes.CDLL("libc.so.6", use_errno=True).prctl(1, signal.SIGKILL)  # PR_SET_PDEATHSIG
        if os.getppid() == 1:
            os._exit(0)
    except Exception:
        pass


def _kill_children():
    me = str(os.getpid())
    for d in os.listdir("/proc"):
        if not d.isdigit():
            continue
        try:
            st = open("/proc/%s/stat" % d).read()
            ppid = st[st.rindex(")") + 2:].split()[1]
            if ppid == me:
                os.kill(int(d), 9)
        except Exception:
            pass


def _shutdown(pool):
    """Pool.terminate() can dead-lock when tasks are still in flight (observed once: all workers
    gone, the master waiting on a futex). Kill the workers ourselves and give terminate() a few
    seconds in a daemon thread; the process ends with os._exit in run_check.py."""
    import threading
    for p in list(getattr(pool, "_pool", [])):
        try:
            p.kill()
        except Exception:
            pass
    try:
        pool._state = "TERMINATE"  # stops the pool's maintenance thread from respawning killed workers
    except Exception:
        pass
    t = threading.Thread(target=pool.terminate, daemon=True)
    t.start()
    t.join(5)
    _kill_children()


def src_hash(f):
    try:
        src = inspect.getsource(f)
    except (OSError, TypeError):
        src = repr(f)
    q = getattr(f, "__module__", "?") + "." + getattr(f, "__qualname__", repr(f))
    return q, hashlib.sha256(src.encode()).hexdigest()[:16]


def python_real():
    return os.path.join(VERIF, ".venv", "bin", "python")


def run_real(check_id, records, timeout=900):
    """Run the check's concrete replay functions on the UNPATCHED mokapot in a fresh process."""
    if not records:
        return []
    with tempfile.TemporaryDirectory(prefix="verif_real_") as d:
        fin = os.path.join(d, "in.json")
        fout = os.path.join(d, "out.json")
        json.dump(records, open(fin, "w"))
        env = dict(os.environ)
        env.pop("MOKAPOT_VERIF", None)
        p = subprocess.run([python_real(), os.path.join(VERIF, "replay.py"), "--batch", check_id, fin, fout],
                           capture_output=True, text=True, timeout=timeout, env=env)
        if p.returncode != 0 or not os.path.exists(fout):
            raise HarnessError("replay process failed: rc=%s\n%s\n%s" % (p.returncode, p.stdout[-2000:], p.stderr[-4000:]))
        return json.load(open(fout))


def close_enough(a, b, tol=2e-6):
    if isinstance(a, bool) or isinstance(b, bool):
        return bool(a) == bool(b) if isinstance(a, (bool, int)) and isinstance(b, (bool, int)) else False
    if isinstance(a, (int, float)) and isinstance(b, (int, float)):
        return abs(a - b) <= tol * max(1.0, abs(a), abs(b))
    if isinstance(a, (list, tuple)) and isinstance(b, (list, tuple)):
        return len(a) == len(b) and all(close_enough(x, y, tol) for x, y in zip(a, b))
    if isinstance(a, dict) and isinstance(b, dict):
        return set(a) == set(b) and all(close_enough(a[k], b[k], tol) for k in a)
    return a == b


class Result:
    def __init__(self):
        self.exit = EXIT_OK
        self.lines = []


def run_check(check_id, harnesses, tier, seed, known=None, budget_s=None, evidence_extra=None,
              replay_known=None):
    """Explore all harnesses; returns exit code. Writes evidence/<id>.json."""
    t0 = time.time()
    _SEED[0] = seed
    for h in harnesses:
        _H[h.name] = h
    budget_s = budget_s or (600 if tier == "quick" else 3300)
    slice_paths, slice_s = (60, 6.0) if tier == "quick" else (300, 20.0)
    agg = {h.name: dict(paths=0, aborted=0, queries=0, solver_s=0.0, decisions=0, reached=0,
                        obligations=0, stat={}, notes={}) for h in harnesses}
    records = []
    cross = {}
    _CROSS[0], _CROSS[1], _CROSS[2] = (0.01, 2, 4000) if tier == "quick" else (0.03, 4, 20000)
    violation = None
    error = None
    ctxm = mp.get_context("fork")
    order = list(harnesses)
    random.Random(seed).shuffle(order)
    queue = [(h.name, [], slice_paths, slice_s) for h in order]
    inflight = 0
    pool = ctxm.Pool(NPROC, initializer=_die_with_parent)
    if True:
        results = []

        def submit():
            nonlocal inflight
            while queue and inflight < NPROC * 2:
                a = queue.pop()
                results.append(pool.apply_async(_job, (a,)))
                inflight += 1

        submit()
        while results:
            done = [r for r in results if r.ready()]
            if not done:
                time.sleep(0.01)
                if time.time() - t0 > budget_s:
                    error = dict(error="inconclusive", detail="time budget of %ds exhausted" % budget_s)
                    break
                continue
            for r in done:
                results.remove(r)
                inflight -= 1
                res = r.get()
                if "error" in res:
                    error = res
                    break
                a = agg[res["harness"]]
                for k in ("paths", "aborted", "queries", "solver_s", "decisions"):
                    a[k] += res[k]
                for k, v in res.get("cross_results", {}).items():
                    cross[k] = cross.get(k, 0) + v
                a["reached"] += res.get("reached", 0)
                a["obligations"] += res.get("obligations", 0)
                for k, v in res.get("stat", {}).items():
                    a["stat"][k] = a["stat"].get(k, 0) + v
                for k, v in res.get("notes", {}).items():
                    a["notes"][k] = a["notes"].get(k, 0) + v
                records.extend(res["records"])
                if res["violation"] and violation is None:
                    violation = res["violation"]
                for p in res["pending"]:
                    queue.append((res["harness"], p, slice_paths, slice_s))
            if error or violation:
                break
            submit()
        _shutdown(pool)

    out = Result()
    exhaustive = error is None and violation is None
    validated = 0
    val_err = None
    confirmed = None
    # ---- validation of sampled paths against the real libraries -------------
    if error is None and violation is None and records:
        cap = 120 if tier == "quick" else 400
        rnd = random.Random(seed)
        rnd.shuffle(records)
        recs = records[:cap]
        try:
            outs = run_real(check_id, recs)
        except HarnessError as e:
            outs = None
            val_err = str(e)
        if outs is not None:
            for rec, o in zip(recs, outs):
                if o.get("skip"):
                    continue
                if o.get("violation"):
                    # the real code violates the concrete oracle on an input the symbolic run
                    # considered fine: reproduced on the real code => report it
                    violation = dict(rec, failed=["validation:" + str(o["violation"])])
                    confirmed = o
                    break
                if rec["expected"] is not None and o.get("outputs") is not None and not close_enough(rec["expected"], o["outputs"]):
                    val_err = "shim disagreement on harness %s: inputs=%s shim=%s real=%s" % (
                        rec["harness"], json.dumps(rec["inputs"])[:600], json.dumps(rec["expected"])[:600], json.dumps(o["outputs"])[:600])
                    break
                if rec["kind"] in ("legit_exc",) and o.get("exception") is None and rec.get("note") and _H[rec["harness"]].validate_exc:
                    val_err = "shim raised %s but the real code did not: inputs=%s" % (rec["note"], json.dumps(rec["inputs"])[:600])
                    break
                validated += 1
    # ---- replay of a counterexample -----------------------------------------
    replay_path = None
    if violation is not None:
        rdir = os.path.join(os.environ.get("VERIF_REPLAY_DIR") or os.path.join(VERIF, "replays"), check_id)
        os.makedirs(rdir, exist_ok=True)
        blob = json.dumps(dict(property_id=check_id, **violation), sort_keys=True, indent=1)
        replay_path = os.path.join(rdir, hashlib.sha256(blob.encode()).hexdigest()[:12] + ".json")
        open(replay_path, "w").write(blob)
        if confirmed is None:
            try:
                o = run_real(check_id, [violation])[0]
            except HarnessError as e:
                o = dict(error=str(e))
            confirmed = o
        if confirmed.get("violation"):
            out.exit = EXIT_VIOLATION
            out.lines.append("VIOLATION property=%s replay=%s" % (check_id, replay_path))
            out.lines.append("  harness=%s failed=%s real: %s" % (violation["harness"], violation["failed"], confirmed["violation"]))
        else:
            out.exit = EXIT_HARNESS
            out.lines.append("HARNESS-ERROR: counterexample of harness %s (failed %s) did not reproduce on the real code: %s; see %s"
                             % (violation["harness"], violation["failed"], json.dumps(confirmed)[:1500], replay_path))
    elif error is not None:
        out.exit = EXIT_INCONCLUSIVE if error["error"] in ("inconclusive", "unsupported") else EXIT_HARNESS
        out.lines.append("%s: harness=%s %s" % (error["error"].upper(), error.get("harness"), error["detail"]))
    elif val_err is not None:
        out.exit = EXIT_HARNESS
        out.lines.append("HARNESS-ERROR: " + val_err)
    else:
        # vacuity guard: every harness must have reached its assertion on some path
        for h in harnesses:
            if h.expect_reach and agg[h.name]["reached"] == 0:
                out.exit = EXIT_HARNESS
                out.lines.append("HARNESS-ERROR: harness %s never reached its assertion (vacuous)" % h.name)

    # ---- evidence -------------------------------------------------------------
    funcs = {}
    for h in harnesses:
        for f in h.functions:
            q, s = src_hash(f)
            funcs[q] = s
    tot = lambda k: sum(a[k] for a in agg.values())
    samples = [dict(harness=r["harness"], kind=r["kind"], note=r.get("note"), inputs=r["inputs"], expected_outputs=r["expected"])
               for r in records[:3]]
    if not samples:
        samples = [dict(harness=h.name, cfg=h.cfg) for h in harnesses[:3]]
    ev = dict(
        property_id=check_id, tier=tier, seed=seed, level="model_checking",
        coverage=dict(
            states=max(tot("paths"), 0), transitions=max(tot("decisions"), 0),
            traces_validated_against_impl=validated, samples=samples,
            exhaustive=bool(exhaustive and out.exit == EXIT_OK),
            paths_reaching_assertion=tot("reached"), oracle_obligations_discharged=tot("obligations"),
            infeasible_paths_cut=tot("aborted"), queries=tot("queries"), solver_s=round(tot("solver_s"), 2),
            functions=funcs,
            second_solver=dict(solver="cvc5 (python wheel)", queries_rechecked=sum(cross.values()), results=cross,
                               note="sample of discharged oracle queries re-decided by cvc5; a 'sat' answer makes the check inconclusive"),
            harnesses={h.name: dict(bounds=h.bounds, stubs=h.stubs, **{k: (round(v, 2) if isinstance(v, float) else v) for k, v in agg[h.name].items()})
                       for h in harnesses},
            explanation="states = execution paths of the real functions explored symbolically (every feasible branch outcome "
                        "within the bounds); transitions = symbolic branch decisions; each path ends in z3 queries asserting the "
                        "negated oracle (unsat on all = holds for every input within the bounds).",
        ),
        assumptions=sorted({a for h in harnesses for a in h.assumptions}),
        wall_s=round(time.time() - t0, 2),
        violations=1 if out.exit == EXIT_VIOLATION else 0,
        exit_code=out.exit,
    )
    if evidence_extra:
        ev["coverage"].update(evidence_extra)
    if out.exit != EXIT_OK:
        ev["coverage"]["outcome"] = out.lines
    evdir = os.environ.get("VERIF_EVIDENCE_DIR") or os.path.join(VERIF, "evidence")
    os.makedirs(evdir, exist_ok=True)
    if ev["coverage"]["states"] < 1:
        ev["coverage"]["states"] = 1
    if ev["coverage"]["transitions"] < 1:
        ev["coverage"]["transitions"] = 1
    json.dump(ev, open(os.path.join(evdir, check_id + ".json"), "w"), indent=1, default=str)
    for l in out.lines:
        print(l)
    print("%s %s: exit=%d paths=%d reached=%d queries=%d solver=%.1fs validated=%d wall=%.1fs" % (
        check_id, tier, out.exit, tot("paths"), tot("reached"), tot("queries"), tot("solver_s"), validated, time.time() - t0))
    for h in harnesses:
        a = agg[h.name]
        print("  %-28s paths=%-6d reached=%-6d %s %s" % (h.name, a["paths"], a["reached"], a["stat"], {k: v for k, v in list(a["notes"].items())[:6]}))
    return out.exit
