"""Stub of `re` for enzyme patterns over tokenised residue strings.

Grammar (one consumed residue with optional look-around, or a zero-width pattern made of
look-arounds only, e.g. Asp-N '(?=D)'):
    pattern := [ '(?<=' cls ')' | '(?<!' cls ')' ] [ cls ] [ '(?=' cls ')' | '(?!' cls ')' ]
    cls     := '[' chars ']' | '[^' chars ']' | '\\w' | '.' | literal
Residues are assumed to be upper-case letters, so \\w and . match every residue.
`selftest()` compares the matcher with the real `re` on concrete strings."""
import re as _re

from . import items
from .core import s_and, s_or, s_not, Unsupported

IGNORECASE = _re.IGNORECASE
Pattern = _re.Pattern


class _Cls:
    def __init__(self, chars=None, neg=False, anyc=False):
        self.chars, self.neg, self.anyc = chars, neg, anyc

    def test(self, ch):
        if self.anyc:
            return True
        r = s_or(*[items.ch_eq(ch, c) for c in self.chars])
        return s_not(r) if self.neg else r


def _parse_cls(p, i):
    if p.startswith("\\w", i):
        return _Cls(anyc=True), i + 2
    if p[i] == ".":
        return _Cls(anyc=True), i + 1
    if p[i] == "[":
        j = p.index("]", i)
        body = p[i + 1:j]
        neg = body.startswith("^")
        if neg:
            body = body[1:]
        if "-" in body or "\\" in body:
            raise Unsupported("character class %r" % body)
        return _Cls(body, neg), j + 1
    if p[i].isalpha():
        return _Cls(p[i]), i + 1
    raise Unsupported("enzyme pattern %r" % p)


def parse(p):
    i = 0
    behind = ahead = None
    if p.startswith("(?<=", i) or p.startswith("(?<!", i):
        neg = p[i + 3] == "!"
        c, j = _parse_cls(p, i + 4)
        if p[j] != ")":
            raise Unsupported("enzyme pattern %r" % p)
        behind = (c, neg)
        i = j + 1
    if i >= len(p) or p.startswith("(?=", i) or p.startswith("(?!", i):
        core_cls = None  # zero-width pattern
        if i >= len(p) and behind is None:
            raise Unsupported("empty enzyme pattern")
    else:
        core_cls, i = _parse_cls(p, i)
    if i < len(p):
        if p.startswith("(?=", i) or p.startswith("(?!", i):
            neg = p[i + 2] == "!"
            c, j = _parse_cls(p, i + 3)
            if p[j] != ")" or j + 1 != len(p):
                raise Unsupported("enzyme pattern %r" % p)
            ahead = (c, neg)
        else:
            raise Unsupported("enzyme pattern %r" % p)
    return behind, core_cls, ahead


class Match:
    def __init__(self, s, e):
        self._s, self._e = s, e

    def end(self):
        return self._e

    def start(self):
        return self._s


class Rx:
    def __init__(self, pattern):
        self.pattern = pattern
        self.behind, self.cls, self.ahead = parse(pattern)

    @property
    def zero_width(self):
        return self.cls is None

    def site_cond(self, seq, k):
        """condition that some match ENDS at offset k of seq (0 <= k <= len(seq))"""
        n = len(seq)
        if not self.zero_width:
            return self.cond(seq, k - 1) if k >= 1 else False
        c = True
        if self.behind is not None:
            b, neg = self.behind
            c = s_and(c, neg if k == 0 else (s_not(b.test(seq[k - 1])) if neg else b.test(seq[k - 1])))
        if self.ahead is not None:
            a, neg = self.ahead
            c = s_and(c, neg if k >= n else (s_not(a.test(seq[k])) if neg else a.test(seq[k])))
        return c

    def cond(self, seq, i):
        """condition (bool / SBool) that a match consumes residue i of seq"""
        if self.zero_width:
            raise Unsupported("cond() of a zero-width pattern")
        n = len(seq)
        c = self.cls.test(seq[i])
        if self.behind is not None:
            b, neg = self.behind
            if i == 0:
                c = s_and(c, neg)
            else:
                t = b.test(seq[i - 1])
                c = s_and(c, s_not(t) if neg else t)
        if self.ahead is not None:
            a, neg = self.ahead
            if i + 1 >= n:
                c = s_and(c, neg)
            else:
                t = a.test(seq[i + 1])
                c = s_and(c, s_not(t) if neg else t)
        return c

    def finditer(self, seq, pos=0, endpos=None):
        """re semantics: endpos truncates the string (a look-ahead cannot see beyond it), pos only
        moves the start of the search (a look-behind still sees the characters before it)."""
        s = str.__str__(seq)
        if endpos is not None:
            s = s[:max(int(endpos), 0)] if int(endpos) >= 0 else s[:0]
        start = max(int(pos), 0)
        if self.zero_width:
            for i in range(start, len(s) + 1):
                c = self.site_cond(s, i)
                if c if isinstance(c, bool) else bool(c):
                    yield Match(i, i)
            return
        for i in range(start, len(s)):
            c = self.cond(s, i)
            if c if isinstance(c, bool) else bool(c):
                yield Match(i, i + 1)


def compile(p, flags=0):
    if isinstance(p, Rx):
        return p
    return Rx(p)


def _native_ok(pattern):
    """patterns made of separators/whitespace only (no class that could match a residue token) run on
    the real `re`: tokens are private-use characters that such a pattern cannot match"""
    import re as real
    body = real.sub(r"\\[sSnrt]|[\*\+\?\(\)\|]|\[\^?\\?[snrt ]+\]", "", pattern)
    return not any(c.isalnum() or c in ".\\[" for c in body)


def split(pattern, string, maxsplit=0, flags=0):
    if not _native_ok(pattern):
        raise Unsupported("re.split(%r) on a tokenised string" % (pattern,))
    return [items.TStr(x) for x in _re.split(pattern, str.__str__(string), maxsplit, flags)]


def sub(pattern, repl, string, count=0, flags=0):
    if not _native_ok(pattern) or items.has_tokens(repl):
        raise Unsupported("re.sub(%r) on a tokenised string" % (pattern,))
    return items.TStr(_re.sub(pattern, repl, str.__str__(string), count, flags))


def selftest(patterns, alphabet="KRPDMA", maxlen=5):
    """Compare the stub with the real `re` on every string over `alphabet` up to maxlen."""
    import itertools
    items.reset()
    n = 0
    for p in patterns:
        rx = Rx(p)
        real = _re.compile(p)
        for L in range(0, maxlen + 1):
            for tup in itertools.product(alphabet, repeat=L):
                s = "".join(tup)
                a = [m.end() for m in rx.finditer(s)]
                b = [m.end() for m in real.finditer(s)]
                n += 1
                if a != b:
                    return "regex stub disagrees with re on %r %r: %s vs %s" % (p, s, a, b)
    return None
