"""List of symbolic length: a concatenation of segments (tag, lo, hi) standing for the
elements tag[lo:hi). Slices with symbolic bounds stay symbolic (no fork)."""
from . import core
from .core import ite, Abort, Sym

MAXCHUNKS = [12]


class SegList:
    def __init__(self, segs):
        self.segs = list(segs)

    def slen(self):
        t = 0
        for _, lo, hi in self.segs:
            t = (hi - lo) + t
        return t

    def __add__(self, o):
        if isinstance(o, SegList):
            return SegList(self.segs + o.segs)
        return NotImplemented

    def __getitem__(self, k):
        if not (isinstance(k, slice) and k.step is None):
            raise core.Unsupported("SegList index %r" % (k,))
        a = 0 if k.start is None else k.start
        n = self.slen()
        b = n if k.stop is None else ite(k.stop > n, n, k.stop)
        out, off = [], 0
        for tag, lo, hi in self.segs:
            ln = hi - lo
            s = ite(a > off, a, off)
            e = ite(b < off + ln, b, off + ln)
            out.append((tag, lo + (s - off), lo + ite(e > s, e, s) - off))
            off = off + ln
        return SegList(out)

    def count(self, tag):
        t = 0
        for tg, lo, hi in self.segs:
            if tg == tag:
                t = ite(hi > lo, hi - lo, 0) + t
        return t


_len, _range = len, range


def slen(x):
    return x.slen() if isinstance(x, SegList) else _len(x)


def srange(*args):
    if not any(isinstance(a, Sym) for a in args):
        return _range(*args)
    if len(args) == 1:
        a, n, c = 0, args[0], 1
    elif len(args) == 2:
        a, n, c = args[0], args[1], 1
    else:
        a, n, c = args

    def gen():
        i, cnt = a, 0
        while i < n:
            cnt += 1
            if cnt > MAXCHUNKS[0]:
                raise Abort("more than %d chunks: outside the stated bound" % MAXCHUNKS[0])
            yield i
            i = i + c
    return gen()
