"""Environment stubs: joblib Parallel/delayed."""
from . import core, symnp

MODE = ["submission"]  # or "nondet"
ORDERS = []  # completion orders chosen in the current path (one entry per pool with > 1 task)


class SParallel:
    """joblib.Parallel(require='sharedmem') stub: tasks run to completion one at a time in a
    (nondeterministically chosen) order; results are returned in submission order."""

    def __init__(self, n_jobs=1, require=None, **kw):
        self.n_jobs = n_jobs

    def __call__(self, tasks):
        tasks = list(tasks)
        order = list(range(len(tasks)))
        if MODE[0] == "nondet" and len(tasks) > 1:
            order = symnp.nd_permutation(len(tasks), "sched")
            core.Ctx.cur.notes.append(("task_order", order))
            ORDERS.append(list(order))
        res = [None] * len(tasks)
        for i in order:
            f, a, k = tasks[i]
            res[i] = f(*a, **k)
        return res


def sdelayed(f):
    return lambda *a, **k: (f, a, k)
