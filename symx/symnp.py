"""numpy shim: 1-D/2-D arrays with a concrete shape on every path and (possibly)
symbolic cells. Only the subset mokapot uses on the checked paths; anything else
raises Unsupported (=> the check ends inconclusive, never a pass)."""
import builtins
import fractions

import numpy as _np
import z3

from . import core
from .core import (Sym, SBool, SNum, SArrayBase, Unsupported, ite, wrap, sdiv, rng_of, _z,
                   s_and, s_or, s_not)

Fraction = fractions.Fraction
nan = float("nan")
inf = float("inf")
newaxis = None


class DType:
    def __init__(self, kind, name, bits=64):
        self.kind = kind
        self.name = name
        self.bits = bits

    def __repr__(self):
        return "dtype(%s)" % self.name

    def __str__(self):
        return self.name

    def __eq__(self, o):
        if isinstance(o, DType):
            return o.kind == self.kind
        if o is bool:
            return self.kind == "b"
        if o is int:
            return self.kind == "i"
        if o is float:
            return self.kind == "f"
        if o is object or o is str:
            return self.kind == "O"
        if isinstance(o, str):
            return o == self.name or (o == "bool" and self.kind == "b")
        return False

    def __ne__(self, o):
        return not self.__eq__(o)

    def __hash__(self):
        return hash(self.kind)

    def __call__(self, x):
        if self.kind == "f":
            if isinstance(x, (int,)) and not isinstance(x, bool):
                return Fraction(x)
            return x
        if self.kind == "i":
            return int(x)
        if self.kind == "b":
            return x != 0 if not isinstance(x, (bool, SBool)) else x
        return x


integer = "integer"
floating = "floating"
number = "number"
float32 = DType("f", "float32")
float64 = DType("f", "float64")
int64 = DType("i", "int64")
int32 = DType("i", "int32", 32)
int16 = DType("i", "int16", 16)
int8 = DType("i", "int8", 8)
signedinteger = "signedinteger"
unsignedinteger = "unsignedinteger"
uint32 = DType("i", "uint32")
bool_ = DType("b", "bool")
object_ = DType("O", "object")
ndarray = None  # set below


def issubdtype(dt, k):
    dt = _dt(dt)
    if k is bool or k == bool_ and isinstance(k, DType):
        return dt.kind == "b"
    if k == integer or k is int:
        return dt.kind in "iu"
    if k == signedinteger:
        return dt.kind == "i"
    if k == unsignedinteger:
        return dt.kind == "u"
    if k == floating or k is float:
        return dt.kind == "f"
    if k == number:
        return dt.kind in "if"
    if isinstance(k, DType):
        return dt.kind == k.kind
    raise Unsupported("issubdtype(%r)" % (k,))


def _dt(t):
    if isinstance(t, DType):
        return t
    if getattr(t, "_symx_dtype", None) is not None:   # per-module shadows of the builtins float / int / str / bool
        t = t._symx_dtype
    if t is bool or t is _np.bool_:
        return bool_
    if t is _np.int8:
        return int8
    if t is _np.int16:
        return int16
    if t is _np.int32:
        return int32
    if t is int or t in (_np.int64, _np.uint32):
        return int64
    if t is float or t in (_np.float64, _np.float32):
        return float64
    if t is object or t is str:
        return object_
    if isinstance(t, str):
        return {"bool": bool_, "int": int64, "int64": int64, "float": float64, "float64": float64,
                "float32": float32, "object": object_, "str": object_}[t]
    if isinstance(t, _np.dtype):
        return {"b": bool_, "i": int64, "u": int64, "f": float64, "O": object_, "U": object_}[t.kind]
    raise Unsupported("dtype %r" % (t,))


def kind_of_scalar(v):
    if isinstance(v, (bool, SBool, _np.bool_)):
        return "b"
    if isinstance(v, (int, _np.integer)):
        return "i"
    if isinstance(v, SNum):
        return "i" if v.is_int else "f"
    if isinstance(v, (float, Fraction, _np.floating)):
        return "f"
    return "O"


def _kind_of(vals):
    k = "b"
    for v in vals:
        kv = kind_of_scalar(v)
        if kv == "O":
            return "O"
        if "bif".index(kv) > "bif".index(k):
            k = kv
    return k


_KD = {"b": bool_, "i": int64, "f": float64, "O": object_}


def _promote(k1, k2):
    if "O" in (k1, k2):
        return "O"
    return builtins.max(k1, k2, key="bif".index)


def _num(a):
    """bool cell -> 0/1 integer cell"""
    if isinstance(a, bool):
        return int(a)
    if isinstance(a, SBool):
        return a._n()
    return a


def _tofloat(v):
    if isinstance(v, bool):
        return Fraction(int(v))
    if isinstance(v, int):
        return Fraction(v)
    if isinstance(v, float):
        return Fraction(v)
    if isinstance(v, SBool):
        v = v._n()
    if isinstance(v, SNum) and v.is_int:
        return wrap(z3.ToReal(v.z))
    return v


class SArray(SArrayBase):
    ndim = 1

    def __init__(self, items, dtype=None):
        self.items = list(items)
        self.dtype = _dt(dtype) if dtype is not None else _KD[_kind_of(self.items)]

    # ---- basic protocol
    @property
    def shape(self):
        return (len(self.items),)

    @property
    def size(self):
        return len(self.items)

    @property
    def values(self):
        return self

    @property
    def T(self):
        return self

    def __len__(self):
        return len(self.items)

    def __iter__(self):
        return iter(self.items)

    def __repr__(self):
        return "SArray(%r, %s)" % (self.items, self.dtype)

    def __array__(self, *a, **k):
        raise Unsupported("SArray passed to a C-level numpy routine")

    def copy(self):
        return SArray(self.items, self.dtype)

    def tolist(self):
        return list(self.items)

    def __symx_eval__(self, m):
        return core.eval_model(m, self.items)

    # ---- elementwise
    def _ew(self, o, f, kind=None, rev=False):
        if isinstance(o, SArray2):
            return NotImplemented
        if isinstance(o, (list, tuple)):
            o = SArray(o)
        if hasattr(o, "_v") and hasattr(o, "index"):  # sympd.Series
            return NotImplemented
        if isinstance(o, _np.ndarray):
            o = array(o)
        if isinstance(o, SArray):
            if len(o) != len(self):
                if len(o) == 1:
                    o2 = [o.items[0]] * len(self)
                elif len(self) == 1:
                    return o._ew(self, f, kind, not rev)
                else:
                    raise ValueError("operands could not be broadcast together with shapes (%d,) (%d,)" % (len(self), len(o)))
            else:
                o2 = o.items
            ok = o.dtype.kind
        else:
            o2 = [o] * len(self.items)
            ok = kind_of_scalar(o)
        if rev:
            its = [f(b, a) for a, b in zip(self.items, o2)]
        else:
            its = [f(a, b) for a, b in zip(self.items, o2)]
        k = kind or _promote(self.dtype.kind, ok)
        return SArray(its, _KD[k])

    def _arith(self, o, f, rev=False, minkind="i"):
        r = self._ew(o, lambda a, b: f(_num(a), _num(b)), rev=rev)
        if r is NotImplemented:
            return r
        if "bif".index(r.dtype.kind) < "bif".index(minkind) if r.dtype.kind != "O" else False:
            r.dtype = _KD[minkind]
        return r

    def __add__(self, o):
        if self.dtype.kind == "b" and isinstance(o, SArray) and o.dtype.kind == "b":
            return self._ew(o, lambda a, b: s_or(a, b), "b")
        return self._arith(o, lambda a, b: a + b)

    def __radd__(self, o):
        return self._arith(o, lambda a, b: a + b, rev=True)

    def __sub__(self, o):
        return self._arith(o, lambda a, b: a - b)

    def __rsub__(self, o):
        return self._arith(o, lambda a, b: a - b, rev=True)

    def __mul__(self, o):
        return self._arith(o, lambda a, b: a * b)

    def __rmul__(self, o):
        return self._arith(o, lambda a, b: a * b, rev=True)

    def __truediv__(self, o):
        return self._arith(o, lambda a, b: sdiv(a, b), minkind="f")

    def __rtruediv__(self, o):
        return self._arith(o, lambda a, b: sdiv(a, b), rev=True, minkind="f")

    def __pow__(self, k):
        if k == 2:
            return SArray([_num(a) * _num(a) for a in self.items], int64 if self.dtype.kind == "b" else self.dtype)
        if isinstance(k, float) and not float(k).is_integer():
            return Opaque((len(self.items),))  # irrational powers only ever feed a stubbed kernel
        raise Unsupported("array ** %r" % (k,))

    def __neg__(self):
        if self.dtype.kind == "b":
            raise TypeError("The numpy boolean negative, the `-` operator, is not supported")
        if self.dtype.kind == "i":
            # two's complement: the most negative value of the dtype is its own negation
            lo = -(2 ** (self.dtype.bits - 1))
            return SArray([(ite(_eq(a, lo), lo, -_num(a)) if isinstance(a, Sym) else (lo if a == lo else -a)) for a in self.items], self.dtype)
        return SArray([-a for a in self.items], self.dtype)

    def __invert__(self):
        if self.dtype.kind == "i":
            return SArray([-_num(a) - 1 for a in self.items], self.dtype)  # bitwise NOT of a two's-complement integer
        if self.dtype.kind == "f":
            raise TypeError("ufunc 'invert' not supported for the input types, and the inputs could not be safely coerced to any supported types according to the casting rule ''safe''")
        if self.dtype.kind != "b":
            raise Unsupported("~ on an array of dtype %s" % self.dtype)
        return SArray([s_not(a) for a in self.items], bool_)

    def __or__(self, o):
        return self._ew(o, lambda a, b: s_or(a, b), "b")

    __ror__ = __or__

    def __and__(self, o):
        return self._ew(o, lambda a, b: s_and(a, b), "b")

    __rand__ = __and__

    def __eq__(self, o):
        return self._ew(o, _eq, "b")

    def __ne__(self, o):
        return self._ew(o, lambda a, b: s_not(_eq(a, b)), "b")

    def __lt__(self, o):
        return self._ew(o, lambda a, b: _num(a) < _num(b), "b")

    def __le__(self, o):
        return self._ew(o, lambda a, b: _num(a) <= _num(b), "b")

    def __gt__(self, o):
        return self._ew(o, lambda a, b: _num(a) > _num(b), "b")

    def __ge__(self, o):
        return self._ew(o, lambda a, b: _num(a) >= _num(b), "b")

    __hash__ = None

    def __bool__(self):
        if len(self.items) == 1:
            return bool(self.items[0])
        raise ValueError("The truth value of an array with more than one element is ambiguous")

    # ---- conversions / reductions
    def tobytes(self, order="C"):
        """raw bytes of the array as a hashable key: for numeric items a function of the values; an array that holds
        str objects is an OBJECT array - its bytes are the objects' addresses, i.e. arbitrary (one fresh symbol)"""
        import z3
        from . import core
        if any(isinstance(x, str) for x in self.items):
            return core.SKey((core.SNum(z3.Int(core.Ctx.cur.fresh_name("object_addresses"))),))
        return core.SKey(tuple(_num(x) for x in self.items))

    def astype(self, t, copy=True):
        t = _dt(t)
        k = self.dtype.kind
        if t.kind == k:
            if k == "f" and t.name == "float32" and self.dtype.name != "float32":
                return SArray([round_float32(a) for a in self.items], t)
            return SArray(self.items, t)
        if t.kind == "b":
            if k == "O":
                raise Unsupported("object -> bool cast")
            return SArray([_eq(a, 0) is False if isinstance(_eq(a, 0), bool) else s_not(_eq(a, 0)) for a in self.items], t)
        if k == "b":
            its = [ite(a, 1, 0) if isinstance(a, SBool) else int(a) for a in self.items]
            if t.kind == "f":
                its = [_tofloat(a) for a in its]
            return SArray(its, t)
        if t.kind == "f" and k == "i":
            return SArray([_tofloat(a) for a in self.items], t)
        if t.kind == "i" and k == "f":
            raise Unsupported("float -> int cast of an array")
        if t.kind == "O":
            return SArray(self.items, t)
        if k == "O":
            raise Unsupported("object -> %s cast" % t)
        raise Unsupported("astype %s -> %s" % (self.dtype, t))

    def max(self, axis=None):
        if not self.items:
            raise ValueError("zero-size array to reduction operation maximum which has no identity")
        m = _num(self.items[0])
        for a in self.items[1:]:
            a = _num(a)
            m = ite(a > m, a, m)
        return m

    def min(self, axis=None):
        if not self.items:
            raise ValueError("zero-size array to reduction operation minimum which has no identity")
        m = _num(self.items[0])
        for a in self.items[1:]:
            a = _num(a)
            m = ite(a < m, a, m)
        return m

    def sum(self, axis=None):
        s = 0
        for a in self.items:
            s = _num(a) + s
        if type(s) is int:
            return _np.int64(s)  # numpy scalar semantics (e.g. 0/0 -> nan, not ZeroDivisionError)
        return s

    def any(self):
        return s_or(*self.items) if self.dtype.kind == "b" else s_or(*[s_not(_eq(a, 0)) for a in self.items])

    def all(self):
        return s_and(*self.items) if self.dtype.kind == "b" else s_and(*[s_not(_eq(a, 0)) for a in self.items])

    def cumsum(self):
        out = []
        s = 0
        for a in self.items:
            s = _num(a) + s
            out.append(s)
        return SArray(out, int64 if self.dtype.kind in "bi" else self.dtype)

    def mean(self):
        if not self.items:
            raise Unsupported("mean of empty array")
        return sdiv(self.sum(), len(self.items))

    def argsort(self, kind=None):
        return argsort(self, kind=kind)

    def to_numpy(self, *a, **k):
        return self

    def nonzero(self):
        return (flatnonzero(self),)

    def item(self, *a):
        if len(self.items) == 1:
            return self.items[0]
        raise ValueError("can only convert an array of size 1 to a Python scalar")

    def fill(self, v):
        self.items[:] = [self._cast(v)] * len(self.items)

    def take(self, idx):
        return self[idx]

    def searchsorted(self, v, side="left"):
        return searchsorted(self, v, side)

    def round(self, n=0):
        raise Unsupported("array.round")

    def argmin(self):
        return argmin(self)

    def clip(self, lo, hi):
        return clip(self, lo, hi)

    def __abs__(self):
        return absolute(self)

    def __rtruediv__(self, o):
        return self._arith(o, lambda a, b: sdiv(a, b), rev=True, minkind="f")

    def __mod__(self, o):
        return self._arith(o, lambda a, b: a % b)

    def __floordiv__(self, o):
        return self._arith(o, lambda a, b: a // b)

    def argmax(self):
        return argmax(self)

    def flatten(self):
        return self.copy()

    ravel = flatten

    def squeeze(self):
        return self.copy()

    def reshape(self, *shape):
        if len(shape) == 1 and isinstance(shape[0], tuple):
            shape = shape[0]
        if tuple(shape) in ((-1,), (len(self.items),)):
            return self.copy()
        if tuple(shape) == (-1, 1):
            return SArray2([[a] for a in self.items], self.dtype)
        raise Unsupported("reshape%r" % (shape,))

    # ---- indexing
    def _norm_index(self, i):
        n = len(self.items)
        i = int(i)
        if i >= n or i < -n:
            raise IndexError("index %d is out of bounds for axis 0 with size %d" % (i, n))
        return i

    def __getitem__(self, k):
        if isinstance(k, tuple) and len(k) == 1:
            k = k[0]
        if isinstance(k, slice):
            return SArray(self.items[_cslice(k)], self.dtype)
        if isinstance(k, (list, _np.ndarray)) or hasattr(k, "_v"):
            k = array(k)
        if isinstance(k, SArray):
            if k.dtype.kind == "b":
                if len(k) != len(self):
                    raise IndexError("boolean index did not match indexed array along axis 0; size of axis is %d but size of corresponding boolean axis is %d" % (len(self), len(k)))
                return SArray([a for a, m in zip(self.items, k.items) if m], self.dtype)
            if len(k) == 0:
                return SArray([], self.dtype)
            return SArray([self.items[self._norm_index(i)] for i in k.items], self.dtype)
        return self.items[self._norm_index(k)]

    def __setitem__(self, k, v):
        if hasattr(v, "_v") and hasattr(v, "index"):
            v = v.values
        if isinstance(k, slice):
            idx = range(*_cslice(k).indices(len(self.items)))
            if isinstance(v, SArray):
                if len(v) != len(idx):
                    raise ValueError("could not broadcast input array from shape (%d,) into shape (%d,)" % (len(v), len(idx)))
                for i, x in zip(idx, v.items):
                    self.items[i] = self._cast(x)
            else:
                for i in idx:
                    self.items[i] = self._cast(v)
            return
        if isinstance(k, (list, _np.ndarray)) or hasattr(k, "_v"):
            k = array(k)
        if isinstance(k, SArray) and k.dtype.kind == "b":
            if len(k) != len(self):
                raise IndexError("boolean index did not match")
            if isinstance(v, SArray):
                # numpy assigns v's elements in order to the True positions: shape depends on mask
                pos = [i for i, m in enumerate(k.items) if m]
                if len(v) != len(pos):
                    raise ValueError("NumPy boolean array indexing assignment cannot assign %d input values to the %d output values where the mask is true" % (len(v), len(pos)))
                for i, x in zip(pos, v.items):
                    self.items[i] = self._cast(x)
            else:
                for i, m in enumerate(k.items):
                    self.items[i] = _ite_any(m, self._cast(v), self.items[i])
            return
        if isinstance(k, SArray):
            idx = [self._norm_index(i) for i in k.items]
            if isinstance(v, SArray):
                if len(v) != len(idx):
                    raise ValueError("shape mismatch: value array of shape (%d,) could not be broadcast to indexing result of shape (%d,)" % (len(v), len(idx)))
                for i, x in zip(idx, v.items):
                    self.items[i] = self._cast(x)
            else:
                for i in idx:
                    self.items[i] = self._cast(v)
            return
        self.items[self._norm_index(k)] = self._cast(v)

    def _cast(self, v):
        k = self.dtype.kind
        if k == "f":
            return _tofloat(v)
        if k == "i":
            kv = kind_of_scalar(v)
            if kv == "b":
                return _num(v)
            if kv == "f":
                # numpy stores the value truncated toward zero (no error, no warning)
                if isinstance(v, Sym):
                    zv = core._z(v)
                    return SNum(z3.If(zv >= 0, z3.ToInt(zv), -z3.ToInt(-zv)))
                return int(v)
            return v
        if k == "b":
            if kind_of_scalar(v) != "b":
                return s_not(_eq(v, 0))
            return v
        return v


def round_float32(x):
    """float64 -> float32 cast of a real-valued cell. Exact IEEE semantics inside one binade:
    a symbolic cell is constrained to [2^23, 2^24) - where float32 values are exactly the
    integers - and rounded to the nearest integer (exact halves excluded). The restriction is
    recorded in the path notes of any run that reaches such a cast."""
    if not isinstance(x, Sym):
        f = float(x)
        return Fraction(float(_np.float32(f))) if f == f and builtins.abs(f) != inf else x
    ctx = core.Ctx.cur
    zx = core._z(x)
    k = z3.Int(ctx.fresh_name("f32"))
    half = z3.RealVal(Fraction(1, 2))
    ctx.assume(z3.And(zx >= 2 ** 23, zx < 2 ** 24, z3.ToReal(k) - half < zx, zx < z3.ToReal(k) + half))
    ctx.notes.append(("float32_cast_of_symbolic_real", "cell constrained to [2^23, 2^24)"))
    r = SNum(z3.ToReal(k))
    return r


def _ite_any(c, a, b):
    if isinstance(c, bool):
        return a if c else b
    if isinstance(a, (str, type(None))) or isinstance(b, (str, type(None))):
        return a if bool(c) else b
    return ite(c, a, b)


def _eq(a, b):
    if isinstance(a, Sym):
        return a == b
    if isinstance(b, Sym):
        return b == a
    if hasattr(a, "eq_term"):
        return a.eq_term(b)
    if hasattr(b, "eq_term"):
        return b.eq_term(a)
    return a == b


def _cslice(k):
    def c(x):
        return None if x is None else int(x)
    return slice(c(k.start), c(k.stop), c(k.step))


class SArray2(SArrayBase):
    ndim = 2

    def __init__(self, rows, dtype=None, ncol=None):
        self.rows = [list(r) for r in rows]
        self.ncol = ncol if ncol is not None else (len(self.rows[0]) if self.rows else 0)
        self.dtype = _dt(dtype) if dtype is not None else _KD[_kind_of([x for r in self.rows for x in r])]

    @property
    def shape(self):
        return (len(self.rows), self.ncol)

    def __len__(self):
        return len(self.rows)

    def __iter__(self):
        return iter(SArray(r, self.dtype) for r in self.rows)

    def copy(self):
        return SArray2(self.rows, self.dtype, self.ncol)

    def __symx_eval__(self, m):
        return core.eval_model(m, self.rows)

    def astype(self, t, copy=True):
        cols = [SArray(r, self.dtype).astype(t) for r in self.rows]
        return SArray2([c.items for c in cols], _dt(t), self.ncol)

    def flatten(self):
        return SArray([x for r in self.rows for x in r], self.dtype)

    ravel = flatten

    def squeeze(self):
        if self.ncol == 1:
            return SArray([r[0] for r in self.rows], self.dtype)
        if len(self.rows) == 1:
            return SArray(list(self.rows[0]), self.dtype)
        return self

    def _rowsel(self, r):
        if isinstance(r, slice):
            return self.rows[_cslice(r)]
        if isinstance(r, (list, _np.ndarray)) or hasattr(r, "_v"):
            r = array(r)
        if isinstance(r, SArray) and r.dtype.kind == "b":
            if len(r) != len(self.rows):
                raise IndexError("boolean index did not match indexed array along axis 0")
            return [row for row, m in zip(self.rows, r.items) if m]
        if isinstance(r, SArray):
            n = len(self.rows)
            out = []
            for i in r.items:
                i = int(i)
                if i >= n or i < -n:
                    raise IndexError("index %d is out of bounds for axis 0 with size %d" % (i, n))
                out.append(self.rows[i])
            return out
        return None

    def __getitem__(self, k):
        if isinstance(k, tuple):
            r, c = k
            if isinstance(c, slice) and c == slice(None):
                return self[r]
            rows = self._rowsel(r)
            if rows is None:
                row = self.rows[int(r)]
                if isinstance(c, slice):
                    return SArray(row[_cslice(c)], self.dtype)
                return row[int(c)]
            if isinstance(c, slice):
                return SArray2([row[_cslice(c)] for row in rows], self.dtype)
            if isinstance(c, (list, SArray)):
                cc = [int(i) for i in (c.items if isinstance(c, SArray) else c)]
                return SArray2([[row[i] for i in cc] for row in rows], self.dtype, len(cc))
            return SArray([row[int(c)] for row in rows], self.dtype)
        rows = self._rowsel(k)
        if rows is None:
            return SArray(self.rows[int(k)], self.dtype)
        return SArray2(rows, self.dtype, self.ncol)


ndarray = SArrayBase


def array(x, dtype=None, copy=True):
    if isinstance(x, SArray):
        r = SArray(x.items, x.dtype)
    elif isinstance(x, SArray2):
        r = x.copy()
    elif hasattr(x, "_v") and hasattr(x, "index"):  # sympd.Series
        r = SArray(x._v, x.dtype)
    elif isinstance(x, _np.ndarray):
        if x.ndim == 1:
            r = SArray([_py(v) for v in x.tolist()], _dt(x.dtype))
        elif x.ndim == 2:
            r = SArray2([[_py(v) for v in row] for row in x.tolist()], _dt(x.dtype), x.shape[1])
        else:
            raise Unsupported("array ndim")
    elif isinstance(x, (list, tuple)):
        x = list(x)
        if x and builtins.all(isinstance(e, (list, tuple, SArray)) for e in x):
            r = SArray2([list(e.items) if isinstance(e, SArray) else list(e) for e in x])
        else:
            r = SArray(x)
    elif isinstance(x, (range,)):
        r = SArray(list(x), int64)
    elif hasattr(x, "__iter__") and not isinstance(x, str):
        r = SArray(list(x))
    else:
        raise Unsupported("np.array(%r)" % type(x))
    if dtype is not None:
        r = r.astype(dtype)
    return r


asarray = array


def _py(v):
    if isinstance(v, float):
        return Fraction(v) if v == v and builtins.abs(v) != inf else v
    return v


def arange(a, b=None, step=1, dtype=None):
    if b is None:
        a, b = 0, a
    d = _dt(dtype) if dtype is not None else int64
    return SArray([Fraction(v) if d.kind == "f" else v for v in range(int(a), int(b), int(step))], d)


def _shape1(n):
    """(n,) -> n; a 2-d shape stays a tuple"""
    if isinstance(n, (tuple, list)):
        if len(n) == 1:
            return n[0]
        if len(n) == 2:
            return (int(n[0]), int(n[1]))
        raise Unsupported("array of %d dimensions" % len(n))
    return n


def ones(n, dtype=None):
    d = _dt(dtype) if dtype is not None else float64
    n = _shape1(n)
    if isinstance(n, tuple):
        return SArray2([[_one(d)] * n[1] for _ in range(n[0])], d, n[1])
    return SArray([_one(d)] * int(n), d)


def zeros(n, dtype=None):
    d = _dt(dtype) if dtype is not None else float64
    if isinstance(n, tuple):
        if len(n) == 1:
            n = n[0]
        else:
            return SArray2([[_zero(d)] * int(n[1]) for _ in range(int(n[0]))], d, int(n[1]))
    return SArray([_zero(d)] * int(n), d)


def empty(n, dtype=None):
    return zeros(n, dtype)


def full(n, v, dtype=None):
    n = _shape1(n)
    if isinstance(n, tuple):
        return SArray2([[v] * n[1] for _ in range(n[0])], dtype, n[1])
    return SArray([v] * int(n), dtype)


def _one(d):
    return True if d.kind == "b" else 1 if d.kind == "i" else Fraction(1)


def _zero(d):
    return False if d.kind == "b" else 0 if d.kind == "i" else Fraction(0)


def ones_like(a, dtype=None):
    d = _dt(dtype) if dtype is not None else a.dtype
    return SArray([_one(d)] * len(a), d)


def zeros_like(a, dtype=None):
    d = _dt(dtype) if dtype is not None else a.dtype
    return SArray([_zero(d)] * len(a), d)


def all(a, axis=None):
    a = array(a) if not isinstance(a, SArray) else a
    return a.all()


def any(a, axis=None):
    a = array(a) if not isinstance(a, SArray) else a
    return a.any()


def flip(a, axis=None):
    return SArray(a.items[::-1], a.dtype)


def _lt3(x, y):
    """three-way comparison by forking: -1, 0, 1"""
    x, y = _num(x), _num(y)
    if isinstance(x, str) or isinstance(y, str):
        return -1 if x < y else (0 if x == y else 1)
    if x < y:
        return -1
    if x == y:
        return 0
    return 1


def _term_key(x):
    return ("z", core._z(x).get_id()) if isinstance(x, Sym) else ("c", repr(x))


def argsort(a, axis=-1, kind=None, stable=None):
    """A permutation that sorts `a` ascending. The default kind (quicksort) is unstable in numpy:
    ties are ordered by a nondeterministic choice - but, as in numpy, the result is a FUNCTION of
    the input: the same array (same terms) gets the same permutation again within a path.
    kind='stable'/'mergesort' keeps input order among ties."""
    if not isinstance(a, SArray):
        a = array(a)
    ctx = core.Ctx.cur
    is_stable = kind in ("stable", "mergesort") or stable
    concrete = builtins.all(not isinstance(x, Sym) for x in a.items)
    nondet = not is_stable and not concrete and ARGSORT_NONDET[0]
    memo = None
    if nondet and ctx is not None:
        memo = ctx.__dict__.setdefault("_argsort_memo", {})
        key = tuple(_term_key(x) for x in a.items)
        if key in memo:
            return SArray(list(memo[key]), int64)
    order = []
    for i, x in enumerate(a.items):
        pos = len(order)
        while pos > 0:
            y = a.items[order[pos - 1]]
            c = _lt3(x, y)
            if c < 0:
                pos -= 1
            elif c == 0 and nondet:
                if bool(ctx.fresh_bool("tie")):
                    pos -= 1
                else:
                    break
            else:
                break
        order.insert(pos, i)
    if memo is not None:
        memo[key] = list(order)
    return SArray(order, int64)


ARGSORT_NONDET = [True]  # any order among ties: numpy's default sort is unstable even for 4 elements here (SIMD quicksort: np.argsort(-[0,0,1,1]) = [3,2,1,0])


def sort(a, kind=None):
    idx = argsort(a, kind="stable")
    return SArray([a.items[i] for i in idx.items], a.dtype)


def unique(a, return_counts=False, return_index=False, return_inverse=False):
    if not isinstance(a, SArray):
        a = array(a)
    idx = argsort(a, kind="stable")
    vals, counts, first, inv = [], [], [], [None] * len(a)
    for i in idx.items:
        x = a.items[i]
        if vals and _truth(_eq(x, vals[-1])):
            counts[-1] += 1
        else:
            vals.append(x)
            counts.append(1)
            first.append(i)
        inv[i] = len(vals) - 1
    out = [SArray(vals, a.dtype)]
    if return_index:
        out.append(SArray(first, int64))
    if return_inverse:
        out.append(SArray(inv, int64))
    if return_counts:
        out.append(SArray(counts, int64))
    return out[0] if len(out) == 1 else tuple(out)


def _truth(x):
    return x if isinstance(x, bool) else bool(x)


def divide(a, b, out=None, where=True):
    a = array(a) if not isinstance(a, SArray) else a
    its = []
    for i in range(len(a)):
        w = where.items[i] if isinstance(where, SArray) else where
        x, y = _num(a.items[i]), _num(b.items[i] if isinstance(b, SArray) else b)
        if w is False:
            q = None
        elif isinstance(y, Sym):
            q = sdiv(x, y)  # table-encoded; value for y == 0 is irrelevant when masked by `where`
            if w is True:
                if core.Ctx.cur.decide(_z(y) == 0):
                    raise Unsupported("np.divide by a symbolic zero without a where-guard (inf/nan)")
        else:
            if y == 0:
                if w is True:
                    raise Unsupported("np.divide by zero (inf/nan)")
                q = 0
            else:
                q = sdiv(x, y)
        if out is not None:
            its.append(out.items[i] if q is None else ite(w, _tofloat(q), out.items[i]))
        else:
            if q is None:
                raise Unsupported("np.divide(where=) without out")
            its.append(q)
    if out is not None:
        res = SArray(its, out.dtype)
        out.items[:] = res.items  # numpy writes the quotient into `out` and returns it
        return out
    return SArray(its, float64)


def argmax(a, axis=None):
    a = array(a) if not isinstance(a, SArray) else a
    if not a.items:
        raise ValueError("attempt to get argmax of an empty sequence")
    best = 0
    for i in range(1, len(a.items)):
        if _truth(_num(a.items[i]) > _num(a.items[best])):
            best = i
    return best


def argmin(a, axis=None):
    a = array(a) if not isinstance(a, SArray) else a
    if not a.items:
        raise ValueError("attempt to get argmin of an empty sequence")
    best = 0
    for i in range(1, len(a.items)):
        if _truth(_num(a.items[i]) < _num(a.items[best])):
            best = i
    return best


def logical_and(a, b):
    return a & b


def logical_or(a, b):
    return a | b


def logical_not(a):
    return ~a


def where(c, a=None, b=None):
    if a is None:
        return (SArray([i for i, m in enumerate(c.items) if m], int64),)
    n = len(c)
    ai = a.items if isinstance(a, SArray) else [a] * n
    bi = b.items if isinstance(b, SArray) else [b] * n
    return SArray([_ite_any(m, x, y) for m, x, y in zip(c.items, ai, bi)])


def ascontiguousarray(a, dtype=None):
    return asarray(a) if dtype is None else asarray(a, dtype=dtype)


def apply_along_axis(f, axis, arr):
    if axis != 1:
        raise Unsupported("apply_along_axis axis != 1")
    return SArray([f(SArray(r, arr.dtype)) for r in arr.rows])


def searchsorted(a, v, side="left"):
    its = a.items if isinstance(a, SArray) else list(a)
    scalar = not isinstance(v, (SArray, list, tuple))
    vs = [v] if scalar else (v.items if isinstance(v, SArray) else list(v))
    out = []
    for x in vs:
        k = 0
        if side == "left":
            while k < len(its) and _truth(its[k] < x):
                k += 1
        else:
            while k < len(its) and _truth(its[k] <= x):
                k += 1
        out.append(k)
    return out[0] if scalar else SArray(out, int64)


def split(a, idx):
    cuts = [int(i) for i in (idx.items if isinstance(idx, SArray) else idx)]
    res = []
    prev = 0
    n = len(a.items)
    for c in cuts:
        c = builtins.min(builtins.max(c, 0), n) if c >= 0 else builtins.max(n + c, 0)
        res.append(SArray(a.items[prev:c] if c >= prev else [], a.dtype))
        prev = c
    res.append(SArray(a.items[prev:], a.dtype))
    return res


def array_split(a, k):
    n = len(a)
    k = int(k)
    q, r = divmod(n, k)
    out = []
    pos = 0
    for i in range(k):
        ln = q + (1 if i < r else 0)
        out.append(a[pos:pos + ln])
        pos += ln
    return out


def concatenate(arrs, axis=0):
    arrs = [array(a) if not isinstance(a, (SArray, SArray2)) else a for a in arrs]
    if arrs and isinstance(arrs[0], SArray2):
        rows = []
        for a in arrs:
            rows += a.rows
        return SArray2(rows, arrs[0].dtype, arrs[0].ncol)
    its = []
    k = None
    for a in arrs:
        its += list(a.items)
        k = a.dtype.kind if k is None else _promote(k, a.dtype.kind)
    return SArray(its, _KD[k or "f"])


hstack = concatenate


def median(a):
    a = array(a) if not isinstance(a, SArray) else a
    if len(a.items) == 0:
        raise Unsupported("median of an empty array (numpy: nan + RuntimeWarning)")
    idx = argsort(a, kind="stable")
    s = [_num(a.items[i]) for i in idx.items]
    n = len(s)
    return s[n // 2] if n % 2 else sdiv(s[n // 2 - 1] + s[n // 2], 2)


def amin(a, axis=None):
    return (array(a) if not isinstance(a, SArray) else a).min()


def amax(a, axis=None):
    return (array(a) if not isinstance(a, SArray) else a).max()


min = amin
max = amax


def sum(a, axis=None):
    return (array(a) if not isinstance(a, SArray) else a).sum()


def cumsum(a):
    return a.cumsum()


FLOAT_ADD_ORDER = [False]


def _fadd(x, y):
    """x + y. Opt-in (FLOAT_ADD_ORDER): IEEE addition - commutative, NOT associative - as an uninterpreted binary
    function with the commutativity instance of every term that is built; (a+b)+c and (a+c)+b are then different
    terms, as they are different floats for some a, b, c."""
    if not FLOAT_ADD_ORDER[0]:
        return _num(x) + _num(y)
    import z3
    from . import core
    zx, zy = core._z(_num(x)), core._z(_num(y))
    zx = z3.ToReal(zx) if z3.is_int(zx) else zx
    zy = z3.ToReal(zy) if z3.is_int(zy) else zy
    F = z3.Function("float_add", z3.RealSort(), z3.RealSort(), z3.RealSort())
    core.Ctx.cur.assume(F(zx, zy) == F(zy, zx))
    return core.SNum(F(zx, zy))


def mean(a, axis=None):
    if axis == 0 and isinstance(a, (list, tuple)) and a and all(isinstance(r, SArray) for r in a) and len({len(r.items) for r in a}) == 1:
        # numpy reduces the rows of the stacked array one after the other: ((r0 + r1) + r2) + ...
        out = []
        for col in zip(*[r.items for r in a]):
            acc = col[0]
            for v in col[1:]:
                acc = _fadd(acc, v)
            out.append(_num(acc) / len(a))
        return SArray(out, float64)
    if axis is not None:
        raise Unsupported("mean(axis=)")
    return (array(a) if not isinstance(a, SArray) else a).mean()


class _Accum:
    def __init__(self, f):
        self.f = f

    def accumulate(self, a):
        out = []
        m = None
        for x in a.items:
            m = x if m is None else self.f(m, x)
            out.append(m)
        return SArray(out, a.dtype)

    def __call__(self, a, b):
        if isinstance(a, SArray):
            return a._ew(b, self.f)
        if isinstance(b, SArray):
            return b._ew(a, lambda y, x: self.f(x, y))
        return self.f(a, b)


maximum = _Accum(lambda a, b: ite(_num(a) >= _num(b), a, b))
minimum = _Accum(lambda a, b: ite(_num(a) <= _num(b), a, b))


def isnan(a):
    if isinstance(a, SArray):
        return SArray([isnan(x) for x in a.items], bool_)
    return isinstance(a, float) and a != a


def isscalar(x):
    return not isinstance(x, (SArrayBase, list, tuple, dict))


def shape(a):
    return a.shape


def vectorize(f):
    def g(a):
        return SArray([f(x) for x in a.items])
    return g


class errstate:
    def __init__(self, **kw):
        pass

    def __enter__(self):
        return self

    def __exit__(self, *a):
        return False


# ---------------------------------------------------------------------------
# RNG stubs
# ---------------------------------------------------------------------------
PERM_FULL_MAX = [3]


def nd_permutation(n, tag="rng"):
    """An arbitrary permutation of range(n): every permutation for n <= PERM_FULL_MAX,
    otherwise a member of the stated family {identity, reversal, rotate-left}."""
    ctx = core.Ctx.cur
    if n <= 1:
        return list(range(n))
    if n <= PERM_FULL_MAX[0]:
        order = []
        for i in range(n):
            pos = len(order)
            while pos > 0 and bool(ctx.fresh_bool(tag)):
                pos -= 1
            order.insert(pos, i)
        return order
    if bool(ctx.fresh_bool(tag)):
        return list(range(n))
    if bool(ctx.fresh_bool(tag)):
        return list(range(n))[::-1]
    return list(range(1, n)) + [0]


class Generator:
    """numpy.random.Generator stub.
    mode 'nondet'  : arbitrary permutations/subsets (forks) - an unseeded generator
    mode 'identity': the identity permutation (stated as a cut where used)
    mode 'seeded'  : an uninterpreted function of (seed, call index): the first draw of a given
                     (seed, index) is arbitrary, every later generator with the same seed and memo
                     replays it - two runs with the same seed agree, unseeded draws do not"""

    def __init__(self, mode="nondet", log=None, memo=None, seed=0):
        self.mode = mode
        self.log = log if log is not None else []
        self.memo = memo if memo is not None else {}
        self.seed = seed
        self.calls = 0

    def __deepcopy__(self, memo):
        # a copy of a numpy Generator continues the same stream: same mode, same seed, same position;
        # the table of draws already made is shared so that original and copy agree
        g = Generator(self.mode, self.log, self.memo, self.seed)
        g.calls = self.calls
        return g

    def _perm(self, n):
        if self.mode == "identity":
            p = list(range(n))
        elif self.mode == "seeded":
            key = (self.seed, self.calls)
            self.calls += 1
            if key in self.memo and len(self.memo[key]) == n:
                p = self.memo[key]
            else:
                p = nd_permutation(n)
                self.memo[key] = p
        else:
            p = nd_permutation(n)
        self.log.append(p)
        return p

    def shuffle(self, arr):
        p = self._perm(len(arr.items))
        arr.items[:] = [arr.items[i] for i in p]

    def permutation(self, arr):
        if isinstance(arr, int):
            arr = SArray(list(range(arr)), int64)
        arr = array(arr) if not isinstance(arr, SArray) else arr
        p = self._perm(len(arr.items))
        return SArray([arr.items[i] for i in p], arr.dtype)

    def choice(self, a, size=None, replace=True):
        if replace:
            raise Unsupported("choice with replacement")
        if isinstance(a, (int, _np.integer)) and not isinstance(a, bool):
            a = range(int(a))  # numpy: an int population means arange(a)
        a = list(a.items if isinstance(a, SArray) else a)
        k = int(size)
        if k > len(a):
            raise ValueError("Cannot take a larger sample than population when replace is False")
        p = self._perm(len(a))
        return SArray([a[i] for i in p][:k])

    def integers(self, lo, hi=None, size=None):
        if size is not None:
            raise Unsupported("integers(size=)")
        if hi is None:
            lo, hi = 0, lo
        lo, hi = int(lo), int(hi)
        if self.mode == "identity":
            self.log.append("integers")
            return 1 if lo <= 1 < hi else lo
        ctx = core.Ctx.cur

        def fresh():
            z = z3.Int(ctx.fresh_name("rng_int"))
            ctx.assume(z3.And(z >= lo, z < hi))
            return SNum(z)
        if self.mode == "seeded":
            key = (self.seed, self.calls, "int", lo, hi)
            self.calls += 1
            if key not in self.memo:
                self.memo[key] = fresh()
            v = self.memo[key]
        else:
            v = fresh()  # an unseeded generator: every draw is arbitrary
        self.log.append(v)
        return v

    def spawn(self, n):
        return [Generator(self.mode, self.log, self.memo, (self.seed, "spawn", i)) for i in range(n)]


class _Random:
    Generator = Generator

    @staticmethod
    def default_rng(seed=None):
        if isinstance(seed, Generator):
            return seed
        return Generator()

    # numpy's GLOBAL generator: never seeded by the code under test, every draw is arbitrary
    @staticmethod
    def permutation(x):
        return Generator().permutation(x)

    @staticmethod
    def choice(a, size=None, replace=True, p=None):
        if isinstance(a, int):
            a = SArray(list(range(a)), int64)
        return Generator().choice(a, size, replace)

    @staticmethod
    def shuffle(x):
        return Generator().shuffle(x)

    @staticmethod
    def seed(s=None):
        return None


random = _Random()


def append(a, v):
    a = array(a) if not isinstance(a, SArray) else a
    vs = list(v.items) if isinstance(v, SArray) else list(v) if isinstance(v, (list, tuple)) else [v]
    return SArray(list(a.items) + vs, a.dtype)


def dtype(t):
    return _dt(t)


# ---------------------------------------------------------------------------
# further idioms a refactoring of the code under test may use
# ---------------------------------------------------------------------------
def _arr(a):
    return a if isinstance(a, (SArray, SArray2)) else array(a)


def flatnonzero(a):
    a = _arr(a)
    return SArray([i for i, m in enumerate(a.items) if (m if isinstance(m, bool) else _truth(s_not(_eq(m, 0)) if not isinstance(m, SBool) else m))], int64)


def nonzero(a):
    return (flatnonzero(a),)


def argwhere(a):
    return SArray2([[i] for i in flatnonzero(a).items], int64, 1)


def count_nonzero(a, axis=None):
    a = _arr(a)
    s = 0
    for m in a.items:
        s = (ite(m, 1, 0) if isinstance(m, SBool) else (int(m) if isinstance(m, bool) else ite(s_not(_eq(m, 0)), 1, 0) if isinstance(m, Sym) else int(m != 0))) + s
    return _np.int64(s) if type(s) is int else s


def lexsort(keys):
    """last key is the primary one; stable"""
    keys = [_arr(k) for k in keys]
    n = len(keys[0])
    order = []
    for i in range(n):
        pos = len(order)
        while pos > 0:
            j = order[pos - 1]
            c = 0
            for k in reversed(keys):
                c = _lt3(k.items[i], k.items[j])
                if c != 0:
                    break
            if c < 0:
                pos -= 1
            else:
                break
        order.insert(pos, i)
    return SArray(order, int64)


def isin(a, b, invert=False):
    a = _arr(a)
    vals = list(b.items) if isinstance(b, SArray) else list(b)
    out = [s_or(*[_eq(x, v) for v in vals]) if vals else False for x in a.items]
    if invert:
        out = [s_not(x) for x in out]
    return SArray(out, bool_)


in1d = isin


def setdiff1d(a, b):
    a, b = _arr(a), _arr(b)
    keep = [x for x in unique(a).items if not builtins.any(_truth(_eq(x, y)) for y in b.items)]
    return SArray(keep, a.dtype)


def array_equal(a, b):
    a, b = _arr(a), _arr(b)
    if len(a) != len(b):
        return False
    return _truth(s_and(*[_eq(x, y) for x, y in zip(a.items, b.items)]))


def full_like(a, v, dtype=None):
    return SArray([v] * len(a), _dt(dtype) if dtype is not None else a.dtype)


def empty_like(a, dtype=None):
    return zeros_like(a, dtype)


def clip(a, lo, hi, **kw):
    a = _arr(a)

    def one(x):
        x = _num(x)
        if lo is not None:
            x = ite(x < lo, lo, x)
        if hi is not None:
            x = ite(x > hi, hi, x)
        return x
    return SArray([one(x) for x in a.items], a.dtype if a.dtype.kind == "f" or (isinstance(lo, (int, type(None))) and isinstance(hi, (int, type(None)))) else float64)


def abs(a):  # noqa: A001
    if isinstance(a, SArray):
        return SArray([ite(_num(x) < 0, -_num(x), _num(x)) for x in a.items], a.dtype)
    return ite(a < 0, -a, a)


absolute = abs


def take(a, idx, axis=None):
    return _arr(a)[idx]


def repeat(a, n, axis=None):
    a = _arr(a) if isinstance(a, (SArray, list, tuple, _np.ndarray)) else SArray([a])
    if isinstance(n, (SArray, list, tuple, _np.ndarray)):
        counts = [int(k) for k in (n.items if isinstance(n, SArray) else n)]
        if len(counts) == 1:
            counts = counts * len(a.items)
        if len(counts) != len(a.items):
            raise ValueError("operands could not be broadcast together with shape (%d,) (%d,)" % (len(a.items), len(counts)))
        return SArray([x for x, k in zip(a.items, counts) for _ in range(k)], a.dtype)
    return SArray([x for x in a.items for _ in range(int(n))], a.dtype)


def diff(a, n=1, axis=-1, prepend=None, append=None):
    a = _arr(a)
    if n != 1:
        raise Unsupported("diff(n=%r)" % (n,))
    its = list(a.items)
    if prepend is not None:
        its = (list(_arr(prepend).items) if isinstance(prepend, (SArray, list, tuple)) else [prepend]) + its
    if append is not None:
        its = its + (list(_arr(append).items) if isinstance(append, (SArray, list, tuple)) else [append])
    return SArray([_num(y) - _num(x) for x, y in zip(its, its[1:])], a.dtype if a.dtype.kind != "b" else int64)


def insert(a, pos, v):
    a = _arr(a)
    its = list(a.items)
    its.insert(int(pos), v)
    return SArray(its, a.dtype)


def delete(a, pos):
    a = _arr(a)
    ps = {int(p) for p in (pos.items if isinstance(pos, SArray) else pos if isinstance(pos, (list, tuple)) else [pos])}
    return SArray([x for i, x in enumerate(a.items) if i not in ps], a.dtype)


def cumsum(a, dtype=None):  # noqa: F811
    return _arr(a).cumsum()


def invert(a):
    return ~_arr(a)


def sign(a):
    a = _arr(a)
    return SArray([ite(x > 0, 1, ite(x < 0, -1, 0)) for x in a.items], a.dtype)


def stack(arrs, axis=0):
    arrs = [_arr(a) for a in arrs]
    if axis == 0:
        return SArray2([list(a.items) for a in arrs], arrs[0].dtype)
    return SArray2([[a.items[i] for a in arrs] for i in range(len(arrs[0]))], arrs[0].dtype, len(arrs))


def column_stack(arrs):
    return stack(arrs, axis=1)


vstack = stack


def atleast_1d(a):
    return _arr(a) if isinstance(a, (SArray, list, tuple, _np.ndarray)) else SArray([a])


def result_type(*a):
    return float64


def iinfo(t):
    return _np.iinfo(_np.int64)


def finfo(t):
    return _np.finfo(_np.float64)




# ---------------------------------------------------------------------------
# interpolation / grids / opaque matrices (PEP and q-value glue, check C06)
# ---------------------------------------------------------------------------
def interp(x, xp, fp, left=None, right=None):
    """numpy's arr_interp for len(xp) <= 8 (LIKELY_IN_CACHE_SIZE: linear search, exact also for an
    xp that is not increasing); longer xp must be provably non-decreasing."""
    xs, xp, fp = _arr(x), _arr(xp), _arr(fp)
    n = len(xp)
    if n == 0:
        raise ValueError("array of sample points is empty")
    if len(fp) != n:
        raise ValueError("fp and xp are not of the same length.")
    if n > 8:
        for a, b in zip(xp.items, xp.items[1:]):
            if _truth(_num(a) > _num(b)):
                raise Unsupported("np.interp with more than 8 sample points that are not increasing")
    lval = fp.items[0] if left is None else left
    rval = fp.items[-1] if right is None else right
    out = []
    for v in xs.items:
        v = _num(v)
        if n == 1:
            out.append(lval if _truth(v < _num(xp.items[0])) else rval if _truth(v > _num(xp.items[0])) else fp.items[0])
            continue
        if _truth(v > _num(xp.items[-1])):
            out.append(rval)
            continue
        if _truth(v < _num(xp.items[0])):
            out.append(lval)
            continue
        i = 1
        while i < n and _truth(v >= _num(xp.items[i])):
            i += 1
        j = i - 1
        if j == n - 1 or _truth(_eq(xp.items[j], v)):
            out.append(_tofloat(fp.items[j]))
            continue
        slope = sdiv(_num(fp.items[j + 1]) - _num(fp.items[j]), _num(xp.items[j + 1]) - _num(xp.items[j]))
        out.append(slope * (v - _num(xp.items[j])) + _num(fp.items[j]))
    return SArray(out, float64)


def linspace(a, b, num=50):
    num = int(num)
    if num == 1:
        return SArray([_tofloat(a)], float64)
    step = sdiv(_num(b) - _num(a), num - 1)
    return SArray([_num(a) + step * i for i in range(num - 1)] + [_tofloat(b)], float64)


class Opaque:
    """A matrix/vector whose entries are irrelevant because it is only ever handed to a numeric
    kernel that is stubbed by its contract; only the shape is tracked."""

    def __init__(self, shape):
        self.shape = tuple(shape)

    def __len__(self):
        return self.shape[0]

    def dot(self, o):
        return _odot(self, o)

    def __matmul__(self, o):
        return _odot(self, o)

    def __rmatmul__(self, o):
        return _odot(o, self)

    def __getitem__(self, k):
        return Opaque(self.shape)

    def __setitem__(self, k, v):
        pass

    def _same(self, o=None):
        return Opaque(self.shape)

    __add__ = __radd__ = __sub__ = __rsub__ = __mul__ = __rmul__ = __truediv__ = __pow__ = _same
    T = property(lambda self: Opaque(self.shape[::-1]))


def _oshape(o):
    return o.shape if isinstance(o, (Opaque, SArray, SArray2)) else ()


def _odot(a, b):
    sa, sb = _oshape(a), _oshape(b)
    if len(sa) == 2 and len(sb) == 2:
        if sa[1] != sb[0]:
            raise ValueError("shapes %s and %s not aligned" % (sa, sb))
        return Opaque((sa[0], sb[1]))
    if len(sa) == 2 and len(sb) == 1:
        if sa[1] != sb[0]:
            raise ValueError("shapes %s and %s not aligned" % (sa, sb))
        return Opaque((sa[0],))
    raise Unsupported("opaque product of shapes %s %s" % (sa, sb))


def tril(m, k=0):
    return Opaque(m.shape)


triu = tril


def tri(n, m=None, k=0, dtype=None):
    return Opaque((int(n), int(n if m is None else m)))


def eye(n, m=None, **kw):
    return Opaque((int(n), int(n if m is None else m)))


identity = eye


def dot(a, b):
    if isinstance(a, Opaque) or isinstance(b, Opaque):
        return _odot(a, b)
    a, b = _arr(a), _arr(b)
    if isinstance(a, SArray) and isinstance(b, SArray):
        if len(a) != len(b):
            raise ValueError("shapes (%d,) and (%d,) not aligned" % (len(a), len(b)))
        t = 0
        for x, y in zip(a.items, b.items):
            t = t + _num(x) * _num(y)
        return t
    raise Unsupported("np.dot of these operands")


matmul = dot


def diag(v, k=0):
    n = len(v)
    return Opaque((n, n))


def sqrt(a):
    if isinstance(a, (SArray, Opaque)):
        return Opaque(a.shape)
    raise Unsupported("sqrt of a scalar")


# comparison / logical ufuncs by name
def equal(a, b):
    return _arr(a) == b if isinstance(a, (SArray, list, tuple)) or isinstance(b, (SArray, list, tuple)) else _eq(a, b)


def not_equal(a, b):
    return _arr(a) != b if isinstance(a, (SArray, list, tuple)) or isinstance(b, (SArray, list, tuple)) else s_not(_eq(a, b))


def greater(a, b):
    return a > b


def greater_equal(a, b):
    return a >= b


def less(a, b):
    return a < b


def less_equal(a, b):
    return a <= b


def logical_or(a, b):
    return a | b


def logical_xor(a, b):
    return a ^ b


def add(a, b):
    return a + b


def subtract(a, b):
    return a - b


def multiply(a, b):
    return a * b


def negative(a):
    return -a


def fromiter(it, dtype=None, count=-1):
    return SArray(list(it), _dt(dtype) if dtype is not None else None)


def asarray(a, dtype=None, **kw):  # noqa: F811
    r = array(a)
    return r.astype(dtype) if dtype is not None and isinstance(r, SArray) else r
