"""pandas shim: DataFrame/Series with a concrete shape and column set on every path and
(possibly) symbolic cells. Only the subset mokapot uses on the checked paths."""
import re as _re

import pandas as _pd

from . import core, symnp
from .core import Sym, SBool, SNum, Unsupported, s_and, s_or, s_not
from .symnp import SArray, SArray2, DType, bool_, int64, float64, object_, _eq, _kind_of, _KD

errors = _pd.errors  # delegated to the REAL pandas: missing attributes fail exactly as installed
NA = None


def _dtype_of(vals):
    return _KD[_kind_of(vals)]


def _truth(x):
    return x if isinstance(x, bool) else bool(x)


class Index(list):
    def tolist(self):
        return list(self)

    def to_list(self):
        return list(self)

    def __add__(self, o):
        if isinstance(o, (list, tuple)):
            return Index(list(self) + list(o))
        return Index([v + o for v in self])

    def __radd__(self, o):
        if isinstance(o, (list, tuple)):
            return Index(list(o) + list(self))
        return Index([o + v for v in self])

    def __iadd__(self, o):  # pandas: index += k builds a new index (no in-place list extension)
        return self.__add__(o)

    def __mul__(self, o):
        return Index([v * o for v in self])

    def __sub__(self, o):
        return Index([v - o for v in self])

    def __getitem__(self, k):
        if hasattr(k, "_v") and hasattr(k, "index"):
            k = k.values
        if isinstance(k, SArray) or (isinstance(k, list) and not isinstance(k, Index)):
            ks = list(k.items) if isinstance(k, SArray) else list(k)
            if ks and all(isinstance(m, (bool, core.SBool)) for m in ks) or (isinstance(k, SArray) and k.dtype.kind == "b"):
                if len(ks) != len(self):
                    raise IndexError("boolean index did not match indexed array along axis 0")
                return Index([v for v, m in zip(self, ks) if m])
            return Index([list.__getitem__(self, int(i)) for i in ks])
        r = list.__getitem__(self, k)
        return Index(r) if isinstance(k, slice) else r

    @property
    def values(self):
        return SArray(list(self))

    def to_numpy(self, *a, **k):
        return SArray(list(self))

    def __len__(self):
        return list.__len__(self)

    def __eq__(self, o):
        return list.__eq__(self, list(o)) if isinstance(o, (list, tuple)) else NotImplemented

    __hash__ = None

    def isin(self, vals):
        s = list(vals)
        return SArray([v in s for v in self], bool_)

    def map(self, f):
        return Index([f(v) for v in self])

    def get_loc(self, k):
        return self.index(k)

    def drop(self, labels):
        labels = [labels] if isinstance(labels, str) else list(labels)
        return Index([v for v in self if v not in labels])

    def difference(self, o):
        return Index(sorted(v for v in self if v not in set(o)))

    @property
    def str(self):
        return _StrIdx(self)


class _StrIdx:
    def __init__(self, idx):
        self.idx = idx

    def lower(self):
        return Index([v.lower() for v in self.idx])


class _HasIndex:
    @property
    def index(self):
        return self._index

    @index.setter
    def index(self, v):
        v = Index(v.items if isinstance(v, SArray) else v)
        if "_index" in self.__dict__ and len(v) != len(self._index):
            raise ValueError("Length mismatch: Expected axis has %d elements, new values have %d elements" % (len(self._index), len(v)))
        self._index = v


class Series(_HasIndex):
    def __init__(self, values=None, index=None, name=None, dtype=None):
        if isinstance(values, Series):
            index = index if index is not None else values.index
            name = name if name is not None else values.name
            dtype = dtype or values.dtype
            values = values._v
        if isinstance(values, dict):
            index = list(values)
            values = list(values.values())
        if values is None:
            values = []
        self._v = list(values.items if isinstance(values, SArray) else values)
        self.index = Index(index) if index is not None else Index(range(len(self._v)))
        if len(self.index) != len(self._v):
            raise ValueError("Length of values (%d) does not match length of index (%d)" % (len(self._v), len(self.index)))
        self.name = name
        if dtype is not None:
            self.dtype = symnp._dt(dtype)
        elif isinstance(values, SArray):
            self.dtype = values.dtype
        else:
            self.dtype = _dtype_of(self._v)

    @property
    def values(self):
        return SArray(self._v, self.dtype)

    def to_numpy(self, dtype=None, copy=False, **kw):
        return self.values if dtype is None else self.values.astype(dtype)

    @property
    def shape(self):
        return (len(self._v),)

    @property
    def size(self):
        return len(self._v)

    def __len__(self):
        return len(self._v)

    def __iter__(self):
        return iter(self._v)

    def __symx_eval__(self, m):
        return core.eval_model(m, self._v)

    def copy(self, deep=True):
        return Series(self._v, self.index, self.name, self.dtype)

    def _wrap(self, arr, name=None):
        return Series(arr.items, self.index, name if name is not None else self.name, arr.dtype)

    def astype(self, t):
        return self._wrap(self.values.astype(t))

    def sum(self):
        return self.values.sum()

    def max(self):
        return self.values.max()

    def min(self):
        return self.values.min()

    def any(self):
        return self.values.any()

    def all(self):
        return self.values.all()

    def idxmax(self):
        return self.index[symnp.argmax(self.values)]

    def __invert__(self):
        return self._wrap(~self.values)

    def __neg__(self):
        return self._wrap(-self.values)

    def _bin(self, o, f):
        if isinstance(o, Series):
            if list(o.index) != list(self.index):
                raise Unsupported("Series op with non-aligned index")
            o = o.values
        return self._wrap(f(self.values, o))

    def __eq__(self, o):
        return self._bin(o, lambda a, b: a == b)

    def __ne__(self, o):
        return self._bin(o, lambda a, b: a != b)

    def __lt__(self, o):
        return self._bin(o, lambda a, b: a < b)

    def __le__(self, o):
        return self._bin(o, lambda a, b: a <= b)

    def __gt__(self, o):
        return self._bin(o, lambda a, b: a > b)

    def __ge__(self, o):
        return self._bin(o, lambda a, b: a >= b)

    def __and__(self, o):
        return self._bin(o, lambda a, b: a & b)

    def __or__(self, o):
        return self._bin(o, lambda a, b: a | b)

    __rand__ = __and__
    __ror__ = __or__

    def eq(self, o):
        return self.__eq__(o)

    def ne(self, o):
        return self.__ne__(o)

    def lt(self, o):
        return self.__lt__(o)

    def le(self, o):
        return self.__le__(o)

    def gt(self, o):
        return self.__gt__(o)

    def ge(self, o):
        return self.__ge__(o)

    def between(self, lo, hi, inclusive="both"):
        if inclusive != "both":
            raise Unsupported("between(inclusive=%r)" % (inclusive,))
        return (self >= lo) & (self <= hi)

    def where(self, cond, other=None):
        """keep the value where cond holds, else take `other` (scalar or aligned Series)"""
        c = cond.values if isinstance(cond, Series) else cond
        c = list(c.items) if isinstance(c, SArray) else list(c)
        if len(c) != len(self._v):
            raise ValueError("Array conditional must be same shape as self")
        if isinstance(other, Series):
            if list(other.index) != list(self.index):
                raise Unsupported("Series.where with a non-aligned Series")
            o = list(other._v)
        elif isinstance(other, SArray):
            o = list(other.items)
        else:
            o = [other] * len(self._v)
        out = []
        for v, k, w in zip(self._v, c, o):
            if isinstance(v, Sym) or isinstance(w, Sym) and not isinstance(v, str) and not isinstance(w, str):
                out.append(core.ite(k, v, w))
            else:
                out.append(v if _truth(k) else w)
        return Series(out, self.index, self.name)

    def mask(self, cond, other=None):
        c = cond.values if isinstance(cond, Series) else cond
        return self.where(~c if isinstance(c, SArray) else [not x for x in c], other)

    def notna(self):
        return ~self.isna()

    notnull = notna

    def duplicated(self, keep="first"):
        return self.to_frame().duplicated(keep=keep)

    def count(self):
        return symnp.count_nonzero(self.notna().values)

    def __radd__(self, o):
        return self._bin(o, lambda a, b: b + a)

    def __rsub__(self, o):
        return self._bin(o, lambda a, b: b - a)

    def __rmul__(self, o):
        return self._bin(o, lambda a, b: b * a)

    def __add__(self, o):
        return self._bin(o, lambda a, b: a + b)

    def __sub__(self, o):
        return self._bin(o, lambda a, b: a - b)

    def __mul__(self, o):
        return self._bin(o, lambda a, b: a * b)

    def __truediv__(self, o):
        return self._bin(o, lambda a, b: a / b)

    __hash__ = None

    def tolist(self):
        return list(self._v)

    to_list = tolist

    @property
    def is_monotonic_increasing(self):
        return s_and(*[SBool(core._z(a) <= core._z(b)) for a, b in zip(self._v, self._v[1:])]) if len(self._v) > 1 else True

    @property
    def is_monotonic_decreasing(self):
        return s_and(*[SBool(core._z(a) >= core._z(b)) for a, b in zip(self._v, self._v[1:])]) if len(self._v) > 1 else True

    def sample(self, frac=1, random_state=None):
        if frac != 1:
            raise Unsupported("sample(frac != 1)")
        n = len(self._v)
        order = list(range(n)) if SAMPLE_MODE[0] == "identity" else symnp.nd_permutation(n, "sample")
        return Series([self._v[i] for i in order], [self.index[i] for i in order], self.name, self.dtype)

    def isna(self):
        return Series([_isna(v) for v in self._v], self.index, self.name, bool_)

    isnull = isna

    def map(self, f):
        if isinstance(f, dict):
            d = f
            return Series([d.get(v) for v in self._v], self.index, self.name)
        return Series([f(v) for v in self._v], self.index, self.name)

    apply = map

    def isin(self, vals):
        vals = list(vals)
        return Series([s_or(*[_eq(v, w) for w in vals]) if vals else False for v in self._v], self.index, self.name, bool_)

    def unique(self):
        out = []
        for v in self._v:
            if not any(_truth(_eq(v, w)) for w in out):
                out.append(v)
        return SArray(out, self.dtype)

    def drop_duplicates(self):
        keep = []
        for i, v in enumerate(self._v):
            if not any(_truth(_eq(v, self._v[j])) for j in keep):
                keep.append(i)
        return Series([self._v[i] for i in keep], [self.index[i] for i in keep], self.name, self.dtype)

    def to_frame(self):
        return DataFrame({self.name: self._v}, self.index, {self.name: self.dtype})

    def reset_index(self, drop=False):
        if not drop:
            raise Unsupported("Series.reset_index(drop=False)")
        return Series(self._v, None, self.name, self.dtype)

    @property
    def str(self):
        return _Str(self)

    @property
    def loc(self):
        return _SLoc(self)

    @property
    def iloc(self):
        return _SILoc(self)

    def __getitem__(self, k):
        if isinstance(k, Series):
            k = k.values
        if isinstance(k, SArray) and k.dtype.kind == "b":
            keep = [i for i, m in enumerate(k.items) if m]
            return Series([self._v[i] for i in keep], [self.index[i] for i in keep], self.name, self.dtype)
        if isinstance(k, slice):
            return Series(self._v[k], self.index[k], self.name, self.dtype)
        if isinstance(k, (list, SArray)):
            ks = k.items if isinstance(k, SArray) else k
            pos = [self.index.index(int(x) if not isinstance(x, str) else x) for x in ks]
            return Series([self._v[i] for i in pos], [self.index[i] for i in pos], self.name, self.dtype)
        if isinstance(k, Sym):
            k = int(k)
        return self._v[self.index.index(k)]

    def __setitem__(self, k, v):
        if isinstance(k, (Series, SArray)) or (isinstance(k, list) and len(k) == len(self._v) and all(isinstance(m, (bool, core.SBool)) for m in k)):
            # boolean mask: s[mask] = scalar, or = another Series aligned by index label
            mask = list(k._v) if isinstance(k, Series) else list(k.items) if isinstance(k, SArray) else list(k)
            if len(mask) != len(self._v):
                raise Unsupported("Series[mask] = ... with a mask of another length")
            for i, m in enumerate(mask):
                if isinstance(v, Series):
                    if self.index[i] not in v.index:
                        if m is False:
                            continue
                        raise Unsupported("Series[mask] = Series lacking a masked label")
                    new = v._v[v.index.index(self.index[i])]
                elif isinstance(v, SArray):
                    raise Unsupported("Series[mask] = array")
                else:
                    new = v
                if isinstance(m, bool):
                    if m:
                        self._v[i] = new
                else:
                    self._v[i] = symnp._ite_any(m, new, self._v[i])
            self.dtype = _dtype_of(self._v)
            return
        self._v[self.index.index(k)] = v


class _SLoc:
    def __init__(self, s):
        self.s = s

    def __getitem__(self, k):
        return self.s[k]


class _SILoc:
    def __init__(self, s):
        self.s = s

    def __getitem__(self, k):
        s = self.s
        if isinstance(k, slice):
            return Series(s._v[k], s.index[k], s.name, s.dtype)
        return s._v[int(k)]


class MaybeNA:
    """A cell that is missing (NaN) iff `na` (symbolic), else holds `value`."""
    __slots__ = ("na", "value")

    def __init__(self, na, value):
        self.na, self.value = na, value

    def __symx_eval__(self, m):
        return None if core.eval_model(m, self.na) else core.eval_model(m, self.value)

    def __repr__(self):
        return "MaybeNA(%r, %r)" % (self.na, self.value)


def _isna(v):
    if isinstance(v, MaybeNA):
        return v.na
    return v is None or (isinstance(v, float) and v != v)


class _Str:
    def __init__(self, s):
        self.s = s

    def _map(self, f, dt=None):
        return Series([f(v) for v in self.s._v], self.s.index, self.s.name, dt or object_)

    def replace(self, pat, repl, regex=False):
        return self._map(lambda v: _re.sub(pat, repl, v) if regex else v.replace(pat, repl))

    def islower(self):
        return self._map(lambda v: v.islower(), bool_)

    def upper(self):
        return self._map(lambda v: v.upper())

    def lower(self):
        return self._map(lambda v: v.lower())

    def startswith(self, p):
        return self._map(lambda v: v.startswith(p), bool_)

    def contains(self, p, regex=True):
        return self._map(lambda v: bool(_re.search(p, v)) if regex else (p in v), bool_)

    def len(self):
        return self._map(lambda v: len(v), int64)

    def split(self, sep=None, n=-1, expand=False):
        if isinstance(sep, str) and len(sep) > 1 and type(sep) is str and all(type(v) is str for v in self.s._v):
            # pandas: a pattern longer than one character is a regular expression (concrete strings only)
            import re as _re
            parts = [_re.split(sep, v) if n in (-1, None) else _re.split(sep, v, maxsplit=n) for v in self.s._v]
        else:
            parts = [v.split(sep) if n in (-1, None) else v.split(sep, n) for v in self.s._v]
        if not expand:
            return Series(parts, self.s.index, self.s.name, object_)
        w = max([len(p) for p in parts] + [0])
        return DataFrame({i: [p[i] if i < len(p) else None for p in parts] for i in range(w)}, self.s.index)

    def __getitem__(self, k):
        return self._map(lambda v: v[k])


class _Loc:
    def __init__(self, df):
        self.df = df

    def _rows(self, rows):
        df = self.df
        if isinstance(rows, slice):
            if rows == slice(None):
                return list(range(len(df.index)))
            # label-based inclusive slice on the default RangeIndex-like index
            lo = df.index.index(rows.start) if rows.start is not None else 0
            hi = df.index.index(rows.stop) + 1 if rows.stop is not None else len(df.index)
            return list(range(lo, hi))
        if isinstance(rows, Series):
            rows = rows.values
        if isinstance(rows, SArray) and rows.dtype.kind == "b":
            if len(rows) != len(df.index):
                raise IndexError("Boolean index has wrong length")
            return [i for i, m in enumerate(rows.items) if m]
        if isinstance(rows, (SArray, list, tuple, Index, range)):
            rows = rows.items if isinstance(rows, SArray) else list(rows)
            pos = {}
            for i, lab in enumerate(df.index):
                pos.setdefault(lab, i)
            out = []
            for r in rows:
                r = int(r) if not isinstance(r, str) else r
                if r not in pos:
                    raise KeyError("%r not in index" % (r,))
                out.append(pos[r])
            return out
        r = int(rows) if not isinstance(rows, str) else rows
        return df.index.index(r)

    def __getitem__(self, k):
        df = self.df
        if isinstance(k, tuple):
            rows, cols = k
        else:
            rows, cols = k, slice(None)
        ridx = self._rows(rows)
        if isinstance(ridx, int):
            if isinstance(cols, str):
                return df._c[cols][ridx]
            return Series([df._c[c][ridx] for c in df._c], list(df._c))
        idx = [df.index[i] for i in ridx]
        if isinstance(cols, slice):
            if cols != slice(None):
                raise Unsupported("loc column slice")
            cs = list(df._c)
        elif isinstance(cols, str) or (not isinstance(cols, (list, tuple, Index, SArray)) and cols in df._c):
            if cols not in df._c:
                raise KeyError(cols)
            return Series([df._c[cols][i] for i in ridx], idx, cols, df._dt[cols])
        else:
            cs = list(cols.items if isinstance(cols, SArray) else cols)
            for c in cs:
                if c not in df._c:
                    raise KeyError("%r not in index" % (c,))
        return DataFrame({c: [df._c[c][i] for i in ridx] for c in cs}, idx, {c: df._dt[c] for c in cs}, _cols=cs)

    def __setitem__(self, k, v):
        df = self.df
        rows, col = k
        ridx = self._rows(rows)
        if isinstance(ridx, int):
            ridx = [ridx]
        if col not in df._c:
            df._c[col] = [None] * len(df.index)
            df._dt[col] = object_
        vals = v._v if isinstance(v, Series) else v.items if isinstance(v, SArray) else None
        if isinstance(rows, (Series, SArray)) and (rows.dtype.kind == "b") and vals is None:
            m = rows.values.items if isinstance(rows, Series) else rows.items
            for i, mm in enumerate(m):
                df._c[col][i] = symnp._ite_any(mm, v, df._c[col][i])
            return
        for j, i in enumerate(ridx):
            df._c[col][i] = vals[j] if vals is not None else v
        df._dt[col] = _dtype_of(df._c[col])


class _ILoc:
    def __init__(self, df):
        self.df = df

    def __getitem__(self, k):
        df = self.df
        cols = None
        if isinstance(k, tuple):
            k, cols = k
        if isinstance(k, slice):
            idx = list(range(len(df.index)))[symnp._cslice(k)]
        elif isinstance(k, (list, SArray)):
            idx = [int(i) for i in (k.items if isinstance(k, SArray) else k)]
        else:
            i = int(k)
            return Series([df._c[c][i] for c in df._c], list(df._c))
        cs = list(df._c)
        if cols is not None:
            if isinstance(cols, slice):
                cs = cs[cols]
            elif isinstance(cols, (list, tuple)):
                cs = [cs[int(j)] for j in cols]
            else:
                c = cs[int(cols)]
                return Series([df._c[c][i] for i in idx], [df.index[i] for i in idx], c, df._dt[c])
        return DataFrame({c: [df._c[c][i] for i in idx] for c in cs}, [df.index[i] for i in idx], {c: df._dt[c] for c in cs}, _cols=cs)


class DataFrame(_HasIndex):
    def __init__(self, data=None, index=None, dtypes=None, columns=None, _cols=None):
        if isinstance(data, DataFrame):
            index = index if index is not None else data.index
            dtypes = dtypes or data._dt
            data = data._c
        if isinstance(data, list) and data and all(isinstance(r, Series) for r in data):  # list of rows
            keys = list(data[0].index)
            data = {k: [r._v[list(r.index).index(k)] for r in data] for k in keys}
        if isinstance(data, list):  # list of dict records
            keys = list(columns) if columns is not None else (list(data[0]) if data else [])
            data = {k: [r[k] for r in data] for k in keys}
            columns = None
        if isinstance(data, SArray2):
            names = list(columns) if columns is not None else list(range(data.ncol))
            data = {c: [r[j] for r in data.rows] for j, c in enumerate(names)}
            columns = None
        data = data or {}
        self._c = {}
        for k, v in data.items():
            if isinstance(v, Series):
                v = v._v
            elif isinstance(v, SArray):
                v = v.items
            elif not isinstance(v, (list, tuple)):
                v = None if index is None else [v] * len(index)
                if v is None:
                    raise ValueError("If using all scalar values, you must pass an index")
            self._c[k] = list(v)
        if columns is not None:
            cols = list(columns)
            self._c = {c: self._c.get(c, []) for c in cols}
        lens = {len(v) for v in self._c.values()}
        if len(lens) > 1:
            raise ValueError("All arrays must be of the same length")
        n = lens.pop() if lens else (len(index) if index is not None else 0)
        self.index = Index(index) if index is not None else Index(range(n))
        if len(self.index) != n and self._c:
            raise ValueError("Length of values (%d) does not match length of index (%d)" % (n, len(self.index)))
        self._dt = {}
        for k, v in self._c.items():
            if dtypes and k in dtypes:
                self._dt[k] = dtypes[k]
            elif isinstance(data.get(k), (SArray, Series)):
                self._dt[k] = data[k].dtype
            else:
                self._dt[k] = _dtype_of(v)

    @staticmethod
    def from_records(records, columns=None):
        records = list(records)
        cols = list(columns) if columns is not None else (list(records[0]) if records else [])
        return DataFrame({c: [r[c] for r in records] for c in cols}, None, None, _cols=cols)

    def __symx_eval__(self, m):
        return dict(columns=list(self._c), index=list(self.index),
                    data={str(c): core.eval_model(m, v) for c, v in self._c.items()})

    # ---- structure
    @property
    def columns(self):
        return Index(self._c)

    @columns.setter
    def columns(self, names):
        names = list(names)
        if len(names) != len(self._c):
            raise ValueError("Length mismatch")
        self._c = {n: v for n, v in zip(names, self._c.values())}
        self._dt = {n: v for n, v in zip(names, self._dt.values())}

    @property
    def shape(self):
        return (len(self.index), len(self._c))

    @property
    def empty(self):
        return len(self.index) == 0 or not self._c

    def __len__(self):
        return len(self.index)

    def __iter__(self):
        return iter(self._c)

    def __contains__(self, k):
        return k in self._c

    @property
    def loc(self):
        return _Loc(self)

    @property
    def iloc(self):
        return _ILoc(self)

    @property
    def values(self):
        kinds = {d.kind for d in self._dt.values()}
        dt = _KD["O" if "O" in kinds else "f" if "f" in kinds else "i" if "i" in kinds else "b"] if kinds else float64
        if len(self._c) and len(kinds) > 1 and dt.kind != "O":
            rows = [[symnp._tofloat(self._c[c][i]) if dt.kind == "f" else symnp._num(self._c[c][i]) for c in self._c] for i in range(len(self.index))]
        else:
            rows = [[self._c[c][i] for c in self._c] for i in range(len(self.index))]
        return SArray2(rows, dt, len(self._c))

    def to_numpy(self, dtype=None, copy=False, **kw):
        return self.values if dtype is None else self.values.astype(dtype)

    @property
    def dtypes(self):
        return Series([self._dt[c] for c in self._c], list(self._c), dtype=object_)

    def copy(self, deep=True):
        return DataFrame(self._c, self.index, self._dt)

    def reset_index(self, drop=False, inplace=False):
        if not drop:
            raise Unsupported("reset_index(drop=False)")
        if inplace:
            self.index = Index(range(len(self.index)))
            return None
        return DataFrame(self._c, None, self._dt)

    def set_index(self, idx):
        raise Unsupported("set_index")

    def __getitem__(self, k):
        if isinstance(k, Series):
            k = k.values
        if isinstance(k, SArray) and k.dtype.kind == "b":
            if len(k) != len(self.index):
                raise ValueError("Item wrong length %d instead of %d." % (len(k), len(self.index)))
            keep = [i for i, m in enumerate(k.items) if m]
            return DataFrame({c: [v[i] for i in keep] for c, v in self._c.items()}, [self.index[i] for i in keep], self._dt, _cols=list(self._c))
        if isinstance(k, (list, tuple, Index, SArray)) and not (isinstance(k, tuple) and k in self._c):
            ks = list(k.items if isinstance(k, SArray) else k)
            for c in ks:
                if c not in self._c:
                    raise KeyError("%r not in index" % ([c],))
            return DataFrame({c: self._c[c] for c in ks}, self.index, {c: self._dt[c] for c in ks}, _cols=ks)
        if isinstance(k, slice):
            return self.iloc[k]
        if k in self._c:
            return Series(self._c[k], self.index, k, self._dt[k])
        raise KeyError(k)

    def get(self, k, default=None):
        return self[k] if k in self._c else default

    def __setitem__(self, k, v):
        if isinstance(k, list):
            if isinstance(v, DataFrame):
                for c, src in zip(k, v._c):
                    self[c] = Series(v._c[src], v.index, c, v._dt[src])
                return
            raise Unsupported("df[list] = %r" % type(v))
        if isinstance(v, Series):
            if list(v.index) != list(self.index) and len(v) == len(self.index):
                # pandas aligns on index labels
                pos = {lab: i for i, lab in enumerate(v.index)}
                try:
                    vals = [v._v[pos[lab]] for lab in self.index]
                except KeyError:
                    raise Unsupported("column assignment with a non-aligned Series")
            else:
                vals = v._v
            dt = v.dtype
        elif isinstance(v, SArray):
            vals, dt = v.items, v.dtype
        elif isinstance(v, (list, tuple)):
            vals = list(v)
            dt = _dtype_of(vals)
        elif isinstance(v, SArray2):
            if v.ncol != 1:
                raise ValueError("Cannot set a DataFrame with multiple columns to the single column %s" % k)
            vals = [r[0] for r in v.rows]
            dt = v.dtype
        else:
            vals = [v] * len(self.index)
            dt = _dtype_of(vals)
        if len(vals) != len(self.index):
            raise ValueError("Length of values (%d) does not match length of index (%d)" % (len(vals), len(self.index)))
        self._c[k] = list(vals)
        self._dt[k] = dt

    def __delitem__(self, k):
        del self._c[k]
        del self._dt[k]

    def drop(self, labels=None, axis=0, inplace=False, columns=None, errors="raise"):
        if columns is not None:
            labels, axis = columns, 1
        if axis not in (1, "columns"):
            raise Unsupported("drop rows")
        cols = [labels] if isinstance(labels, str) else list(labels)
        for c in cols:
            if c not in self._c and errors == "raise":
                raise KeyError("%r not found in axis" % ([c],))
        d = DataFrame({c: v for c, v in self._c.items() if c not in cols}, self.index, self._dt)
        if inplace:
            self._c, self._dt = d._c, d._dt
            return None
        return d

    def rename(self, columns=None, inplace=False):
        if callable(columns):
            f = columns
            columns = {c: f(c) for c in self._c}
        d = DataFrame({columns.get(c, c): v for c, v in self._c.items()}, self.index, {columns.get(c, c): t for c, t in self._dt.items()})
        if inplace:
            self._c, self._dt = d._c, d._dt
            return None
        return d

    def assign(self, **kw):
        d = DataFrame(self._c, self.index, self._dt)
        for k, v in kw.items():
            d[k] = v
        return d

    def astype(self, t):
        if isinstance(t, dict):
            d = self.copy()
            for c, tt in t.items():
                d[c] = d[c].astype(tt)
            return d
        d = self.copy()
        for c in list(d._c):
            d[c] = d[c].astype(t)
        return d

    def reindex(self, idx=None, columns=None, index=None):
        if idx is None:
            idx = index
        if idx is None:
            raise Unsupported("reindex(columns=)")
        return self.loc[list(idx.items if isinstance(idx, SArray) else idx), :]

    def isna(self):
        return DataFrame({c: [_isna(x) for x in v] for c, v in self._c.items()}, self.index, {c: bool_ for c in self._c})

    isnull = isna

    def any(self, axis=0):
        if axis == 0:
            return Series([s_or(*[x for x in v if x is not None]) if v else False for v in self._c.values()], list(self._c), dtype=bool_)
        return Series([s_or(*[self._c[c][i] for c in self._c]) for i in range(len(self.index))], self.index, dtype=bool_)

    def sort_values(self, by, ascending=True, inplace=False, axis=0, kind=None, ignore_index=False):
        bys = [by] if isinstance(by, str) else list(by)
        asc = [ascending] * len(bys) if isinstance(ascending, bool) else list(ascending)
        for b in bys:
            if b not in self._c:
                raise KeyError(b)
        n = len(self.index)
        stable = kind in ("stable", "mergesort") or len(bys) > 1  # pandas uses a stable lexsort for several keys
        ctx = core.Ctx.cur

        def before(i, j):
            # strict "row i sorts before row j"; ties: nondeterministic (quicksort) unless stable
            for b, a in zip(bys, asc):
                x, y = self._c[b][i], self._c[b][j]
                c = symnp._lt3(x, y)
                if c != 0:
                    return (c < 0) if a else (c > 0)
            if stable or not SORT_NONDET[0]:
                return False
            symbolic = any(isinstance(self._c[b][k], Sym) for b in bys for k in (i, j))
            return bool(ctx.fresh_bool("sorttie")) if symbolic else False
        memo = key = None
        if not stable and SORT_NONDET[0] and ctx is not None:
            # as in pandas/numpy, the (unstable) order is a function of the input
            memo = ctx.__dict__.setdefault("_sort_memo", {})
            key = (tuple(bys), tuple(asc), tuple(symnp._term_key(self._c[b][i]) for b in bys for i in range(n)))
        if memo is not None and key in memo:
            order = list(memo[key])
        else:
            order = []
            for i in range(n):
                pos = len(order)
                while pos > 0 and before(i, order[pos - 1]):
                    pos -= 1
                order.insert(pos, i)
            if memo is not None:
                memo[key] = list(order)
        d = DataFrame({c: [v[i] for i in order] for c, v in self._c.items()},
                      None if ignore_index else [self.index[i] for i in order], self._dt)
        if inplace:
            self._c, self._index = d._c, d.index
            return None
        return d

    def drop_duplicates(self, subset=None, keep="first", inplace=False):
        subset = list(self._c) if subset is None else [subset] if isinstance(subset, str) else list(subset)
        n = len(self.index)
        keepidx = []
        order = range(n) if keep == "first" else range(n - 1, -1, -1)
        for i in order:
            dup = False
            for j in keepidx:
                same = s_and(*[_eq(self._c[c][i], self._c[c][j]) for c in subset])
                if _truth(same):
                    dup = True
                    break
            if not dup:
                keepidx.append(i)
        keepidx.sort()
        d = DataFrame({c: [v[i] for i in keepidx] for c, v in self._c.items()}, [self.index[i] for i in keepidx], self._dt)
        if inplace:
            self._c, self._index = d._c, d.index
            return None
        return d

    def duplicated(self, subset=None, keep="first"):
        if keep not in ("first", "last"):
            raise Unsupported("duplicated(keep=%r)" % (keep,))
        kept = self.drop_duplicates(subset=subset, keep=keep).index
        keptset = list(kept)
        if len(set(map(repr, self.index))) != len(self.index):
            raise Unsupported("duplicated() on a frame with a non-unique index")
        return Series([lab not in keptset for lab in self.index], self.index, dtype=bool_)

    def to_dict(self, orient="dict"):
        if orient != "records":
            raise Unsupported("to_dict(%r)" % orient)
        return [{c: self._c[c][i] for c in self._c} for i in range(len(self.index))]

    def sample(self, frac=1, random_state=None):
        if frac != 1:
            raise Unsupported("sample(frac != 1)")
        n = len(self.index)
        if SAMPLE_MODE[0] == "identity":
            order = list(range(n))
        else:
            order = symnp.nd_permutation(n, "sample")
        return DataFrame({c: [v[i] for i in order] for c, v in self._c.items()}, [self.index[i] for i in order], self._dt)

    def apply(self, f, axis=0):
        if axis == 1:
            return Series([f(Series([self._c[c][i] for c in self._c], list(self._c))) for i in range(len(self.index))], self.index)
        return Series([f(Series(v, self.index, c, self._dt[c])) for c, v in self._c.items()], list(self._c))

    def itertuples(self, index=True, name=None):
        for i in range(len(self.index)):
            row = tuple(self._c[c][i] for c in self._c)
            yield ((self.index[i],) + row) if index else row

    def iterrows(self):
        for i in range(len(self.index)):
            yield self.index[i], Series([self._c[c][i] for c in self._c], list(self._c))

    def head(self, n=5):
        return self.iloc[:n]

    def merge(self, *a, **k):
        raise Unsupported("merge")

    def groupby(self, by=None, sort=True, **k):
        if k:
            raise Unsupported("groupby(%s)" % ", ".join(k))
        return _GroupBy(self, [by] if isinstance(by, str) else list(by), sort)

    def to_csv(self, *a, **k):
        raise Unsupported("DataFrame.to_csv (codec) outside the VFS")


class _GroupBy:
    """groups = classes of rows with equal key cells (symbolic equality forks); only operations whose
    result does not depend on the order of the groups are modelled, plus sorted concrete keys."""

    def __init__(self, df, by, sort, col=None):
        self.df, self.by, self.sort, self.col = df, by, sort, col
        for b in by:
            if b not in df._c:
                raise KeyError(b)
        n = len(df.index)
        self.gid = []
        reps = []
        for i in range(n):
            for g, j in enumerate(reps):
                if _truth(s_and(*[_eq(df._c[b][i], df._c[b][j]) for b in by])):
                    self.gid.append(g)
                    break
            else:
                reps.append(i)
                self.gid.append(len(reps) - 1)
        self.reps = reps

    def __getitem__(self, col):
        if isinstance(col, list):
            raise Unsupported("groupby()[list]")
        if col not in self.df._c:
            raise KeyError(col)
        return _GroupBy.__new_like__(self, col)

    @staticmethod
    def __new_like__(g, col):
        o = object.__new__(_GroupBy)
        o.__dict__.update(g.__dict__)
        o.col = col
        return o

    def _agg(self, how, vals):
        if how in ("max", "min"):
            m = vals[0]
            for v in vals[1:]:
                m = core.ite((v > m) if how == "max" else (v < m), v, m)
            return m
        if how == "sum":
            t = 0
            for v in vals:
                t = t + v
            return t
        if how in ("count", "size"):
            return len(vals)
        if how == "first":
            return vals[0]
        if how == "last":
            return vals[-1]
        raise Unsupported("groupby aggregation %r" % (how,))

    def transform(self, how):
        if self.col is None or not isinstance(how, str):
            raise Unsupported("groupby.transform on a frame / with a callable")
        col = self.df._c[self.col]
        per = {}
        for g in range(len(self.reps)):
            per[g] = self._agg(how, [col[i] for i in range(len(col)) if self.gid[i] == g])
        return Series([per[g] for g in self.gid], self.df.index, self.col)

    def _reduce(self, how):
        if self.col is None:
            raise Unsupported("groupby.%s on a frame" % how)
        if len(self.by) != 1:
            raise Unsupported("groupby on several keys with a reduction")
        col = self.df._c[self.col]
        keys = [self.df._c[self.by[0]][j] for j in self.reps]
        vals = [self._agg(how, [col[i] for i in range(len(col)) if self.gid[i] == g]) for g in range(len(self.reps))]
        order = list(range(len(keys)))
        if self.sort:
            if any(isinstance(k, Sym) for k in keys):
                raise Unsupported("groupby(sort=True) reduction with symbolic keys")
            order.sort(key=lambda g: keys[g])
        return Series([vals[g] for g in order], [keys[g] for g in order], self.col)

    def max(self):
        return self._reduce("max")

    def min(self):
        return self._reduce("min")

    def sum(self):
        return self._reduce("sum")

    def size(self):
        return self._reduce("size")

    def count(self):
        return self._reduce("count")

    def first(self):
        return self._reduce("first")

    def __getattr__(self, name):
        raise Unsupported("groupby.%s" % name)


SORT_NONDET = [True]  # see symnp.ARGSORT_NONDET (pandas' default quicksort inherits numpy's unstable sort)
SAMPLE_MODE = ["nondet"]


def concat(objs, axis=0, ignore_index=False, sort=False, copy=None):
    objs = [o for o in objs]
    if not objs:
        raise ValueError("No objects to concatenate")
    if axis in (1, "columns"):
        first = objs[0]
        cols, dts = {}, {}
        for d in objs:
            if isinstance(d, Series):
                d = d.to_frame()
            if list(d.index) != list(first.index):
                raise Unsupported("concat(axis=1) with different indexes")
            for c in d._c:
                if c in cols:
                    raise Unsupported("concat(axis=1) duplicate column %r" % c)
                cols[c] = d._c[c]
                dts[c] = d._dt[c]
        return DataFrame(cols, first.index, dts)
    if isinstance(objs[0], Series):
        vals, idx = [], []
        for s in objs:
            vals += s._v
            idx += list(s.index)
        return Series(vals, None if ignore_index else idx, objs[0].name)
    first = objs[0]
    names = list(first._c)
    for d in objs[1:]:
        for c in d._c:
            if c not in names:
                names.append(c)  # pandas: union of the columns, missing cells become NaN
    cols = {c: [] for c in names}
    index = []
    for d in objs:
        for c in cols:
            cols[c] += d._c[c] if c in d._c else [None] * len(d.index)
        index += list(d.index)
    dts = {}
    for c in cols:
        k = None
        for d in objs:
            if c in d._c and len(d.index):
                k = d._dt[c].kind if k is None else symnp._promote(k, d._dt[c].kind)
            elif c not in d._c and len(d.index):
                k = "O" if k in (None, "b", "O") else "f"
        if k is None:
            k = first._dt[c].kind if c in first._dt else "O"
        dts[c] = _KD[k]
    return DataFrame(cols, None if ignore_index else index, dts)


def isna(x):
    if isinstance(x, (Series, DataFrame)):
        return x.isna()
    return _isna(x)


isnull = isna


def to_numeric(x, errors="raise"):
    return x
