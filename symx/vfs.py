"""Virtual file system + stubs of mokapot's TabularDataReader/Writer factory methods.

A file is a path -> table (sympd.DataFrame) or path -> text entry. The readers/writers
implement exactly what the real classes are written to do (CSVFileReader/Writer and
ParquetFileReader/Writer in mokapot/tabular_data.py); the codecs themselves (pandas
read_csv/to_csv, pyarrow) are trusted to round-trip values."""
import fnmatch
from pathlib import PurePosixPath

from . import core, sympd, symnp
from .core import Unsupported

CSV_SUFFIXES = [".csv", ".pin", ".tab", ".peptides", ".psms", ".proteins", ".modifiedpeptides", ".peptidegroups",
                ".modified_peptides", ".peptide_groups", ".precursors"]


class Crash(BaseException):
    """Injected fault: the k-th mutation of the file system does not happen and the run dies."""


class FS:
    cur = None

    def __init__(self):
        self.files = {}
        self.ops = 0
        self.crash_at = None
        self.log = []

    def mutate(self, what, path):
        self.ops += 1
        self.log.append((what, str(path)))
        if self.crash_at is not None and self.ops == self.crash_at:
            raise Crash("%s %s" % (what, path))


def reset():
    FS.cur = FS()
    return FS.cur


class VPath(PurePosixPath):
    def glob(self, pat):
        return sorted((VPath(p) for p in list(FS.cur.files) if PurePosixPath(p).parent == self and fnmatch.fnmatchcase(PurePosixPath(p).name, pat)), key=str)

    def unlink(self, missing_ok=False):
        if str(self) not in FS.cur.files:
            if missing_ok:
                return
            raise FileNotFoundError(str(self))
        FS.cur.mutate("unlink", self)
        del FS.cur.files[str(self)]

    def exists(self):
        return str(self) in FS.cur.files

    def is_file(self):
        return self.exists()

    def stat(self):
        """modification time = one arbitrary integer per file (created on first use): the order of the time stamps of
        leftovers, inputs and files written by the run is unconstrained"""
        import z3
        if not self.exists():
            raise FileNotFoundError(str(self))
        mt = FS.cur.__dict__.setdefault("mtimes", {})
        if str(self) not in mt:
            mt[str(self)] = core.SNum(z3.Int("mtime_%d" % len(mt)))

        class _St:
            st_mtime = mt[str(self)]
            st_mtime_ns = mt[str(self)]
            st_size = 1
        return _St()

    def mkdir(self, *a, **k):
        pass

    def __fspath__(self):
        return str(self)


class _OS:
    """os shim for modules that unlink/splitext"""
    class path:
        @staticmethod
        def splitext(p):
            p = str(p)
            s = PurePosixPath(p).suffix
            return (p[:len(p) - len(s)], s) if s else (p, "")

        @staticmethod
        def exists(p):
            return str(p) in FS.cur.files

    @staticmethod
    def unlink(p):
        VPath(str(p)).unlink()

    remove = unlink

    @staticmethod
    def getenv(k, d=None):
        return d


os_shim = _OS


def _table(path):
    f = FS.cur.files.get(str(path))
    if f is None:
        raise FileNotFoundError("[Errno 2] No such file or directory: %r" % str(path))
    if not isinstance(f, sympd.DataFrame):
        raise Unsupported("reading a non-table VFS entry as a table: %s" % path)
    return f


PARQUET_SHORT_BATCHES = [False]  # set from the pyarrow probe
PARQUET_REQUESTED_ORDER = [True]


class VReader:
    """Stands for CSVFileReader / ParquetFileReader over the VFS."""

    def __init__(self, path, column_map=None):
        self.file_name = path
        self.parquet = str(path).endswith(".parquet")

    @staticmethod
    def from_path(file_name, column_map=None, **kw):
        r = VReader(file_name)
        if column_map is not None:
            from symx import world
            T = world.mod("mokapot.tabular_data")
            return T.ColumnMappedReader(r, column_map)
        return r

    def get_column_names(self):
        return list(_table(self.file_name)._c)

    def get_column_types(self):
        t = _table(self.file_name)
        return [t._dt[c] for c in t._c]

    def _sel(self, df, columns):
        if columns is None:
            return df
        if isinstance(columns, str):
            # the real reader classes are @typechecked: columns must be list[str] | None
            raise TypeError("argument \"columns\" (str) did not match any element in the union: list[str] | None (typeguard)")
        for c in columns:
            if c not in df._c:
                if self.parquet:
                    raise KeyError(c)
                raise ValueError("Usecols do not match columns, columns expected but not found: %r" % [c])
        return df[list(columns)]

    def read(self, columns=None):
        df = _table(self.file_name)
        return self._sel(df, columns).copy().reset_index(drop=True)

    def get_chunked_data_iterator(self, chunk_size, columns=None):
        df = self._sel(_table(self.file_name), columns).copy().reset_index(drop=True)
        n = len(df)
        cs = int(chunk_size)
        if cs < 1:
            raise ValueError("chunksize must be >= 1")
        for pos in range(0, n, cs):
            yield df.iloc[pos:pos + cs]

    def _returned_dataframe_is_mutable(self):
        return True


class VWriter:
    """Stands for CSVFileWriter / ParquetFileWriter over the VFS (initialize truncates and
    writes the header, append_data appends after check_valid_data, write = both)."""

    def __init__(self, path, columns, column_types=None):
        self.file_name = path
        self.columns = list(columns)
        self.column_types = column_types

    @staticmethod
    def from_suffix(file_name, columns, buffer_size=0, buffer_type=None, **kw):
        w = VWriter(file_name, columns, kw.get("column_types"))
        if buffer_size > 1:
            from symx import world
            T = world.mod("mokapot.tabular_data")
            w = T.BufferedWriter(w, buffer_size, buffer_type if buffer_type is not None else T.TableType.DataFrame)
        return w

    def get_column_names(self):
        return self.columns

    def get_column_types(self):
        return self.column_types

    def check_valid_data(self, data):
        cols = data.columns.tolist()
        if not cols == self.columns:
            raise ValueError("Column names %s do not match %s" % (cols, self.columns))

    def initialize(self):
        FS.cur.mutate("truncate", self.file_name)
        FS.cur.files[str(self.file_name)] = sympd.DataFrame({c: [] for c in self.columns})

    def append_data(self, data):
        self.check_valid_data(data)
        FS.cur.mutate("append", self.file_name)
        cur = FS.cur.files.get(str(self.file_name))
        if cur is None:
            # to_csv(mode="a", header=False) on a missing file creates a header-less file
            raise Unsupported("append to a file that was never initialised: %s" % self.file_name)
        if len(cur) == 0:
            new = sympd.DataFrame(data._c, None, data._dt)
        else:
            new = sympd.concat([cur, data], ignore_index=True)
        FS.cur.files[str(self.file_name)] = new

    def finalize(self):
        pass

    def write(self, data):
        self.check_valid_data(data)
        self.initialize()
        self.append_data(data)
        self.finalize()

    def __enter__(self):
        self.initialize()
        return self

    def __exit__(self, *a):
        self.finalize()

    def get_associated_reader(self):
        return VReader(self.file_name)


def put(path, df):
    FS.cur.files[str(path)] = df


def get(path):
    return FS.cur.files.get(str(path))


def listing():
    return sorted(FS.cur.files)


# ---------------------------------------------------------------------------
# pandas / pyarrow I/O entry points over the VFS, so that the REAL CSVFileReader,
# CSVFileWriter, ParquetFileReader and ParquetFileWriter classes can run unchanged.
# ---------------------------------------------------------------------------
def read_csv(file_name, sep="\t", index_col=False, nrows=None, usecols=None, chunksize=None, **kw):
    """pandas.read_csv contract used by mokapot: columns come back in FILE order whatever
    the order of usecols; a missing usecols entry is a ValueError; chunksize=c yields
    consecutive chunks of exactly c rows (the last may be shorter) whose index continues."""
    df = _table(file_name)
    raw_missing = kw.get("na_filter", True) is False
    if isinstance(usecols, str):
        raise ValueError("'usecols' must either be list-like of all strings, all unicode, all integers or a callable.")
    if usecols is not None:
        usecols = list(usecols)
        for c in usecols:
            if c not in df._c:
                raise ValueError("Usecols do not match columns, columns expected but not found: %r" % [c])
        df = df[[c for c in df._c if c in usecols]]
    df = df.copy().reset_index(drop=True)
    parse = (lambda part: _infer_text_dtypes(_unfiltered_missing(part))) if raw_missing else _infer_text_dtypes
    if nrows is not None:
        return parse(df.iloc[:int(nrows)])
    if chunksize is None:
        return parse(df)
    cs = int(chunksize)
    if cs < 1:
        raise ValueError("'chunksize' must be an integer >=1")

    def gen():
        if len(df) == 0:
            yield df.iloc[0:0]  # pandas yields one empty chunk for a header-only file
        for pos in range(0, len(df), cs):
            yield parse(df.iloc[pos:pos + cs])
    return gen()


class _TextOut:
    """plain open(path, "w") on a VFS table path: the text that is written becomes the file. Only a header line is
    modelled - it is parsed the way pandas.read_csv parses it (csv rules: a field wrapped in double quotes is unquoted,
    the separator inside quotes does not split), giving an empty table with those column names."""

    def __init__(self, path, sep="\t"):
        self.path, self.sep, self.buf = path, sep, []

    def write(self, text):
        self.buf.append(str.__str__(text) if isinstance(text, str) else str(text))
        return len(self.buf[-1])

    def close(self):
        import csv
        from . import sympd
        text = "".join(self.buf)
        lines = text.split("\n")
        if lines and lines[-1] == "":
            lines.pop()
        if len(lines) != 1:
            raise Unsupported("text written to a VFS table other than one header line: %r" % (text[:60],))
        names = next(csv.reader([lines[0]], delimiter=self.sep))
        put(self.path, sympd.DataFrame({c: [] for c in names}))

    def __enter__(self):
        return self

    def __exit__(self, *a):
        self.close()
        return False


def open_text(path, mode="r", *a, **k):
    """builtin open() of the VFS-based modules"""
    if "w" in mode and "b" not in mode:
        return _TextOut(VPath(str(path)))
    raise Unsupported("open(%r, %r) on the VFS" % (str(path), mode))


class RawText:
    """A cell that pandas did NOT parse: with na_filter=False an empty field stays the string '' and every value of
    a column parsed together with it stays text (object dtype). Equal to nothing but itself."""
    __slots__ = ("cell",)

    def __init__(self, cell):
        self.cell = cell

    def __symx_eval__(self, m):
        from . import core
        v = core.eval_model(m, self.cell)
        return "" if v is None else str(v)

    def __repr__(self):
        return "RawText(%r)" % (self.cell,)


def _unfiltered_missing(df):
    """pandas.read_csv(na_filter=False): no missing-value detection. A column with an empty field among the rows
    parsed together (the whole file, or one chunk) comes back as text; other columns are parsed as usual."""
    from .sympd import MaybeNA
    from .core import s_or
    out = None
    for c, cells in df._c.items():
        flags = [x.na for x in cells if isinstance(x, MaybeNA)]
        if not flags:
            continue
        some = s_or(*flags)
        if some if isinstance(some, bool) else bool(some):     # decided here (the path forks)
            if out is None:
                out = df.copy()
            out._c[c] = [RawText(x) for x in cells]
            out._dt[c] = symnp.object_
    return df if out is None else out


def _infer_text_dtypes(df):
    """pandas infers the dtype of a text column from the rows it parses - per CHUNK when chunksize is
    given: a numeric column comes back as float64 (its values print as 500.0) as soon as one token of
    the chunk has a decimal point, else as int64 (500). Tracked only for cells that carry the rendering
    flag `txt` (see core.SNum)."""
    from .core import SNum, s_or
    out = None
    for c, cells in df._c.items():
        flags = [x.txt for x in cells if isinstance(x, SNum) and x.txt is not None]
        if not flags or len(flags) != len(cells):
            continue
        isfloat = s_or(*flags)
        if out is None:
            out = df.copy()
        if getattr(df, "_txt_values", False) or any(getattr(x, "txt_values", False) for x in cells):
            # the harness asked for the VALUE dtype to follow the inference too: an all-integer chunk comes back as
            # int64 (z3 Int), any other as float64 (z3 Real). Decided here (the path forks).
            import z3
            if isfloat if isinstance(isfloat, bool) else bool(isfloat):
                out._c[c] = [_mark(SNum(z3.ToReal(x.z) if z3.is_int(x.z) else x.z, None, True)) for x in cells]
                out._dt[c] = symnp.float64
            else:
                out._c[c] = [_mark(SNum(x.z if z3.is_int(x.z) else z3.ToInt(x.z), None, False)) for x in cells]
                out._dt[c] = symnp.int64
        else:
            out._c[c] = [SNum(x.z, x.rng, isfloat) for x in cells]
    return df if out is None else out


def _mark(x):
    return _TxtNum(x.z, x.rng, x.txt)


def text_number(z, dec, ctx):
    """a numeric cell of a text file: value z (Real), spelt with a decimal point iff `dec`; without one the value is
    integral. Its dtype after pandas.read_csv follows the chunk it is parsed in (see _infer_text_dtypes)."""
    import z3
    from .core import SNum, SBool
    ctx.assume(z3.Implies(z3.Not(dec), z3.IsInt(z)))
    c = _TxtNum(z, None, SBool(dec))
    return c


class _TxtNum(core.SNum):
    """SNum that asks the CSV model to let its VALUE dtype (int64 / float64) follow the chunk it is read in"""
    __slots__ = ()
    txt_values = True


def _df_to_csv(self, path, sep="\t", index=False, mode="w", header=True, **kw):
    if index:
        raise Unsupported("to_csv(index=True)")
    key = str(path)
    if mode == "w":
        FS.cur.mutate("write", path)
        FS.cur.files[key] = sympd.DataFrame(self._c, None, self._dt)
        return
    if mode != "a":
        raise Unsupported("to_csv(mode=%r)" % mode)
    FS.cur.mutate("append", path)
    cur = FS.cur.files.get(key)
    if cur is None:
        if header:
            FS.cur.files[key] = sympd.DataFrame(self._c, None, self._dt)
            return
        raise Unsupported("header-less append to a missing file %s (would create a file without header)" % key)
    if header:
        raise Unsupported("append with header to an existing file")
    if len(self._c) != len(cur._c):
        raise Unsupported("appending rows with %d fields to a file with %d columns" % (len(self._c), len(cur._c)))
    # text append is positional: the rows land under the existing header
    ren = sympd.DataFrame({c: v for c, v in zip(cur._c, self._c.values())}, None, {c: self._dt[k] for c, k in zip(cur._c, self._c)})
    FS.cur.files[key] = ren if len(cur) == 0 else sympd.concat([cur, ren], ignore_index=True)


def _df_to_parquet(self, path, index=False, **kw):
    FS.cur.mutate("write", path)
    FS.cur.files[str(path)] = sympd.DataFrame(self._c, None, self._dt)


sympd.read_csv = read_csv
sympd.DataFrame.to_csv = _df_to_csv
sympd.DataFrame.to_parquet = _df_to_parquet


class _Batch:
    def __init__(self, df):
        self.df = df

    @property
    def num_rows(self):
        return len(self.df)

    @property
    def num_columns(self):
        return len(self.df._c)

    @property
    def column_names(self):
        return list(self.df._c)

    def __len__(self):
        return len(self.df)

    def __getattr__(self, name):
        raise Unsupported("pyarrow RecordBatch.%s is not modelled" % name)

    def to_pandas(self):
        return self.df.reset_index(drop=True)

    def to_pylist(self):
        return self.df.to_dict(orient="records")


class _Schema(list):
    @property
    def names(self):
        return [n for n, _ in self]

    @property
    def types(self):
        return [t for _, t in self]

    def to_arrow_schema(self):
        return self


class _ParquetFile:
    def __init__(self, path):
        self.path = path
        t = _table(path)
        self.schema = _Schema([(c, t._dt[c]) for c in t._c])

    def iter_batches(self, batch_size=65536, columns=None):
        df = _table(self.path)
        if columns is not None:
            for c in columns:
                if c not in df._c:
                    raise KeyError(c)
            # column order contract probed on the installed pyarrow (requested order in pyarrow 25)
            df = df[list(columns)] if PARQUET_REQUESTED_ORDER[0] else df[[c for c in df._c if c in columns]]
        df = df.copy().reset_index(drop=True)
        n, bs = len(df), int(batch_size)
        pos = 0
        while pos < n:
            ln = min(bs, n - pos)
            if PARQUET_SHORT_BATCHES[0] and ln > 1:
                # installed pyarrow ends batches at row-group boundaries: arbitrary short batches
                ln = int(core.Ctx.cur.fresh_int("batch_len", 1, ln))
            yield _Batch(df.iloc[pos:pos + ln])
            pos += ln


class _ParquetWriter:
    def __init__(self, path, schema=None):
        self.path = path
        self.schema = schema
        FS.cur.mutate("truncate", path)
        FS.cur.files[str(path)] = sympd.DataFrame({n: [] for n, _ in schema})
        self.open = True

    def write_table(self, table):
        if not self.open:
            raise ValueError("Trying to write to a closed writer")
        FS.cur.mutate("append", self.path)
        cur = FS.cur.files[str(self.path)]
        FS.cur.files[str(self.path)] = sympd.DataFrame(table._c, None, table._dt) if len(cur) == 0 else sympd.concat([cur, table], ignore_index=True)

    def close(self):
        self.open = False


class _ArrowTable:
    """pyarrow.Table over a VFS table (the subset mokapot could reasonably use)."""

    def __init__(self, df):
        self.df = df.reset_index(drop=True)

    @property
    def num_rows(self):
        return len(self.df)

    @property
    def column_names(self):
        return list(self.df._c)

    def __len__(self):
        return len(self.df)

    def to_pandas(self):
        return self.df.copy()

    def to_pylist(self):
        return self.df.to_dict(orient="records")

    def slice(self, offset=0, length=None):
        offset = int(offset)
        stop = len(self.df) if length is None else offset + int(length)
        return _ArrowTable(self.df.iloc[offset:stop])

    def to_batches(self, max_chunksize=None):
        n = len(self.df)
        bs = n if max_chunksize is None else int(max_chunksize)
        return [_Batch(self.df.iloc[p:p + bs]) for p in range(0, n, max(bs, 1))]

    def __getattr__(self, name):
        raise Unsupported("pyarrow Table.%s is not modelled" % name)


class pq_stub:
    ParquetFile = _ParquetFile
    ParquetWriter = _ParquetWriter

    @staticmethod
    def read_table(path, columns=None):
        df = _table(path)
        if columns is not None:
            for c in columns:
                if c not in df._c:
                    raise KeyError(c)
            df = df[list(columns)]  # pyarrow read_table returns the requested order
        return _ArrowTable(df.copy())


class _Scanner:
    def __init__(self, path, columns, batch_size):
        self.path, self.columns, self.batch_size = path, columns, batch_size

    def to_batches(self):
        """pyarrow.dataset scanner: batches never cross a row-group border, so batches shorter than
        batch_size can appear anywhere (row-group layout unknown here: arbitrary short batches)."""
        df = _table(self.path)
        if self.columns is not None:
            df = df[list(self.columns)]
        df = df.copy().reset_index(drop=True)
        n, bs, pos = len(df), int(self.batch_size), 0
        while pos < n:
            ln = min(bs, n - pos)
            if ln > 1:
                ln = int(core.Ctx.cur.fresh_int("scan_batch_len", 1, ln))
            yield _Batch(df.iloc[pos:pos + ln])
            pos += ln

    def to_table(self):
        df = _table(self.path)
        return _ArrowTable(df[list(self.columns)] if self.columns is not None else df)


class _Dataset:
    def __init__(self, path, format=None, **kw):
        self.path = path

    def scanner(self, columns=None, batch_size=131072, **kw):
        return _Scanner(self.path, columns, batch_size)

    def to_batches(self, columns=None, batch_size=131072, **kw):
        return _Scanner(self.path, columns, batch_size).to_batches()

    def to_table(self, columns=None, **kw):
        return _Scanner(self.path, columns, 0).to_table()


class ds_stub:
    """pyarrow.dataset"""
    dataset = _Dataset


class _PaTable:
    @staticmethod
    def from_pandas(data, preserve_index=False, schema=None):
        names = [n for n, _ in schema] if schema is not None else list(data._c)
        for n in names:
            if n not in data._c:
                raise KeyError("name %r present in the specified schema is not found in the columns or index" % n)
        return sympd.DataFrame({n: data._c[n] for n in names}, None, {n: data._dt[n] for n in names})


class pa_stub:
    Table = _PaTable

    @staticmethod
    def schema(fields):
        return _Schema(list(fields))

    @staticmethod
    def float64():
        return symnp.float64

    @staticmethod
    def int64():
        return symnp.int64

    @staticmethod
    def bool_():
        return symnp.bool_

    @staticmethod
    def string():
        return symnp.object_

    DataType = symnp.DType


def probe_parquet_batches():
    """Probe the installed pyarrow: does iter_batches(c) yield full batches across row-group
    boundaries (then index = i*c is right) or short batches at row-group ends?"""
    import tempfile, os
    import pyarrow as pa
    import pyarrow.parquet as pq
    with tempfile.TemporaryDirectory(prefix="verif_pq_") as d:
        p = os.path.join(d, "t.parquet")
        w = pq.ParquetWriter(p, pa.schema([("a", pa.int64())]))
        k = 0
        for n in (3, 5, 2, 7):
            w.write_table(pa.table({"a": list(range(k, k + n))}))
            k += n
        w.close()
        sizes = [b.num_rows for b in pq.ParquetFile(p).iter_batches(4)]
        p2 = os.path.join(d, "u.parquet")
        pq.write_table(pa.table({"a": [1, 2], "b": [3, 4], "c": [5, 6]}), p2)
        order = [b.to_pandas().columns.tolist() for b in pq.ParquetFile(p2).iter_batches(2, columns=["c", "a"])][0]
        PARQUET_REQUESTED_ORDER[0] = order == ["c", "a"]
    full = all(s == 4 for s in sizes[:-1]) and sum(sizes) == 17
    PARQUET_SHORT_BATCHES[0] = not full
    return sizes
