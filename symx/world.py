"""The shimmed world: import the REAL mokapot from /repo with typeguard/numba made
transparent, and helpers to rebind module globals to shims."""
import importlib
import os
import sys

REPO = os.environ.get("VERIF_REPO", "/repo")
_done = [False]


def _ident(f=None, **kw):
    if f is not None and callable(f):
        return f
    return lambda g: g


def import_mokapot_patched():
    """Must run before anything imports mokapot in this process."""
    if _done[0]:
        return
    if "mokapot" in sys.modules:
        raise RuntimeError("mokapot imported before the shimmed world was set up")
    import typeguard
    typeguard.typechecked = _ident
    import numba
    numba.njit = _ident
    numba.jit = _ident
    if REPO not in sys.path:
        sys.path.insert(0, REPO)
    import mokapot  # noqa
    assert os.path.abspath(mokapot.__file__).startswith(os.path.abspath(REPO)), mokapot.__file__
    _done[0] = True


def import_mokapot_real():
    """Unpatched import (replay process)."""
    if REPO not in sys.path:
        sys.path.insert(0, REPO)
    import mokapot  # noqa
    assert os.path.abspath(mokapot.__file__).startswith(os.path.abspath(REPO)), mokapot.__file__
    return mokapot


def mod(name):
    """The module object (mokapot.brew is shadowed by the function of the same name)."""
    importlib.import_module(name)
    return sys.modules[name]


class Rebind:
    """Context manager: rebind module globals, restore on exit."""

    def __init__(self, *triples):
        self.triples = triples
        self.saved = []

    def __enter__(self):
        for m, k, v in self.triples:
            d = m.__dict__
            self.saved.append((m, k, d.get(k, _MISSING)))
            d[k] = v
        return self

    def __exit__(self, *a):
        for m, k, old in reversed(self.saved):
            if old is _MISSING:
                m.__dict__.pop(k, None)
            else:
                m.__dict__[k] = old
        self.saved = []
        return False


_MISSING = object()


def rebind(m, **kw):
    for k, v in kw.items():
        m.__dict__[k] = v
