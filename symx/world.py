"""The shimmed world: import the REAL mokapot from /repo with typeguard/numba made
transparent, and helpers to rebind module globals to shims."""
import importlib
import os
import sys

REPO = os.environ.get("VERIF_REPO", "/repo")
_done = [False]


def _ident(f=None, **kw):
    if f is not None and callable(f):
        return f
    return lambda g: g


def import_mokapot_patched():
    """Must run before anything imports mokapot in this process."""
    if _done[0]:
        return
    if "mokapot" in sys.modules:
        raise RuntimeError("mokapot imported before the shimmed world was set up")
    import typeguard
    typeguard.typechecked = _ident
    import numba
    numba.njit = _ident
    numba.jit = _ident
    if REPO not in sys.path:
        sys.path.insert(0, REPO)
    import mokapot  # noqa
    assert os.path.abspath(mokapot.__file__).startswith(os.path.abspath(REPO)), mokapot.__file__
    _done[0] = True
    snapshot_state(*[m for n, m in list(sys.modules.items()) if n.startswith("mokapot") and m is not None])


def import_mokapot_real():
    """Unpatched import (replay process)."""
    if REPO not in sys.path:
        sys.path.insert(0, REPO)
    import mokapot  # noqa
    assert os.path.abspath(mokapot.__file__).startswith(os.path.abspath(REPO)), mokapot.__file__
    return mokapot


def mod(name):
    """The module object (mokapot.brew is shadowed by the function of the same name)."""
    importlib.import_module(name)
    return sys.modules[name]


class Rebind:
    """Context manager: rebind module globals, restore on exit."""

    def __init__(self, *triples):
        self.triples = triples
        self.saved = []

    def __enter__(self):
        for m, k, v in self.triples:
            d = m.__dict__
            self.saved.append((m, k, d.get(k, _MISSING)))
            d[k] = v
        return self

    def __exit__(self, *a):
        for m, k, old in reversed(self.saved):
            if old is _MISSING:
                m.__dict__.pop(k, None)
            else:
                m.__dict__[k] = old
        self.saved = []
        return False


_MISSING = object()


def rebind(m, **kw):
    for k, v in kw.items():
        m.__dict__[k] = v
    # a module of the package that (newly) binds pyarrow.dataset gets the VFS stub as well
    try:
        import pyarrow.dataset as _ds
        from . import vfs
        for k, v in list(m.__dict__.items()):
            if v is _ds:
                m.__dict__[k] = vfs.ds_stub
    except Exception:
        pass


# ---------------------------------------------------------------------------
# Module-level mutable state of the code under test must not leak from one explored path into
# the next (every path stands for a fresh interpreter unless a harness itself makes several calls).
_STATE = {}


def snapshot_state(*modules):
    import copy
    for m in modules:
        snap = {}
        for k, v in list(m.__dict__.items()):
            if k.startswith("__") or isinstance(v, type(sys)):
                continue
            if isinstance(v, (dict, list, set)):
                try:
                    snap[k] = copy.deepcopy(v)
                except Exception:
                    pass
        _STATE[m.__name__] = (m, snap)


def restore_state():
    import copy
    for m, snap in _STATE.values():
        for k, v in snap.items():
            cur = m.__dict__.get(k)
            if isinstance(cur, dict) and isinstance(v, dict):
                cur.clear()
                cur.update(copy.deepcopy(v))
            elif isinstance(cur, list) and isinstance(v, list):
                cur[:] = copy.deepcopy(v)
            elif isinstance(cur, set) and isinstance(v, set):
                cur.clear()
                cur.update(copy.deepcopy(v))
            else:
                m.__dict__[k] = copy.deepcopy(v)


def route_set_displays(module):
    """Re-executes the module's own source with every set display `{a, b}` and set comprehension
    `{f(x) for x in xs}` rewritten to `set([a, b])` / `set([f(x) for x in xs])`, so that a rebound `set`
    (the model of PYTHONHASHSEED-dependent iteration order) also governs sets built by syntax. The rewrite
    is mechanical and semantics-preserving for the builtin set."""
    import ast
    import inspect
    if module.__dict__.get("__verif_set_routed__"):
        return module
    src = inspect.getsource(module)

    class T(ast.NodeTransformer):
        def visit_Set(self, node):
            self.generic_visit(node)
            return ast.copy_location(ast.Call(func=ast.Name(id="set", ctx=ast.Load()), args=[ast.List(elts=node.elts, ctx=ast.Load())], keywords=[]), node)

        def visit_SetComp(self, node):
            self.generic_visit(node)
            return ast.copy_location(ast.Call(func=ast.Name(id="set", ctx=ast.Load()), args=[ast.ListComp(elt=node.elt, generators=node.generators)], keywords=[]), node)
    tree = ast.fix_missing_locations(T().visit(ast.parse(src)))
    code = compile(tree, module.__file__, "exec")
    keep = {k: v for k, v in module.__dict__.items()}
    exec(code, module.__dict__)
    # names that had been rebound to shims before stay rebound
    for k, v in keep.items():
        if k in module.__dict__ and not callable(keep[k]) and k not in ("__builtins__",):
            pass
    module.__dict__["__verif_set_routed__"] = True
    return module
