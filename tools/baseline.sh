#!/bin/sh
# Runs the repository's pinned suite and compares with BASELINE.json's stable_pass list.
OUT=${1:-/tmp/verif_baseline.xml}
cd /repo && /venv/bin/python -m pytest -ra -q -p no:cacheprovider --timeout=900 --continue-on-collection-errors --junitxml=$OUT >/tmp/verif_baseline.log 2>&1
/venv/bin/python - "$OUT" <<'PY'
import json, sys, xml.etree.ElementTree as ET
base = json.load(open('/root/.vp/BASELINE.json'))
want = set(base['stable_pass'])
got = set()
for tc in ET.parse(sys.argv[1]).getroot().iter('testcase'):
    if not any(c.tag in ('failure', 'error', 'skipped') for c in tc):
        got.add(tc.get('classname') + '::' + tc.get('name'))
missing = sorted(want - got)
print('stable_pass: %d, passing now: %d of them, missing: %s' % (len(want), len(want & got), missing))
sys.exit(1 if missing else 0)
PY
