#!/usr/bin/env python3
"""Regenerates /verif/MANIFEST.json from the table below (kept valid at all times)."""
import json, os
V = os.path.dirname(os.path.dirname(os.path.abspath(__file__)))
TECH = "bounded symbolic execution of the real Python functions (own executor 'symx' over z3): every feasible path within the bounds, negated oracle per path decided by z3, counterexamples replayed on the unpatched code"
LEVEL = "Bounded symbolic model checking of the implementation: the real functions from /repo's working tree run on z3-backed proxy values; all feasible branch outcomes inside the stated bounds are explored and at the end of each path z3 decides the negated property (unsat on every path = holds for every input within the bound). Nothing is claimed outside the bounds."
TRUST = "Trusted: the shims in /verif/symx (numpy/pandas/file-system/RNG/joblib contracts of DESIGN.md section 1.3, differentially validated against the real libraries on sampled paths at every run), z3, float = mathematical real, typeguard/numba made transparent."
CHECKS = {
 "C01": ("section 2 C01", "N <= 4 (quick) / 5 (thorough) PSMs; score dtypes float/int; label dtypes bool/int/float; both directions; symbolic eval_fdr. " + TRUST),
 "C02": ("section 2 C02", "the whole of brew() (ensemble off) on N <= 4 PSMs per file (quick) / 5 (thorough), folds 2..3, 1..2 files, spectrum keys of 1..2 columns, optional training cap with arbitrary RNG subsets, symbolic prediction/read chunk sizes, nondeterministic task order; estimator = recording model whose score per (fold model, row) is a fresh symbol (arbitrary-capacity learner). crc32 is an uninterpreted function assumed injective on the keys of a run; replay realises the hash order with real zlib.crc32 values. " + TRUST),
 "C10": ("section 2 C10", "K1 create_chunks_with_identifier/create_chunks with a feature list of symbolic length 1..60, 2..5 identifier columns, symbolic chunk size 2..64 (<= 10-12 chunks); K2 find_column family over casings/orders/duplicates; K3 convert_targets_column for labels in -3..3 and bool; K4 NaN scan with a symbolic NaN bit per cell; K5 read_percolator composed on a VFS table (text and Parquet suffix, <= 2 rows x <= 2 features quick, more in thorough; column/row scan chunk sizes symbolic). pandas.read_csv / pyarrow decoding trusted; replay goes through the real read_pin on real files. " + TRUST),
 "C11": ("section 2 C11", "dataset.calibrate_scores and OnDiskPsmDataset.calibrate_scores (targets read from a VFS file, encodings 1/-1, 1/0, bool) on N <= 4 (quick) / 5 (thorough) PSMs, symbolic scores/targets/eval_fdr; premise: >= 1 decoy and lowest accepted target strictly above the decoy median; real tdc for N <= 3, above that q-values constrained by the C01 formula. The per-fold application inside brew._predict is an obligation of the C02 harness. " + TRUST),
 "C12": ("section 2 C12", "Model.fit / predict with a recording estimator on N <= 3, 2 iterations (quick) / N <= 4, 3 iterations (thorough): arbitrary RNG permutation, shuffle symbolic, symbolic labels/features/train_fdr/estimator scores; tdc replaced by q-values constrained by the C01 formula (C01 discharges it). The pickle round trip is outside. " + TRUST),
 "C13": ("section 2 C13", "tables of N <= 4 (quick) / 6 (thorough) rows x 3 columns (numeric, string, bool), chunk size 1..N+1, five column subsets/orders, every split of the rows into appends, buffer size 2..N, buffer kinds DataFrame and Dicts. The REAL reader/writer classes run; pandas.read_csv / to_csv / pyarrow are VFS-backed contracts (codecs trusted, batch/column-order contract probed on the installed pyarrow). TableType.Records and the sqlite writer are outside. " + TRUST),
 "C14": ("section 2 C14", "merge_sort/get_next_row over VFS files and MergedTabularDataReader (Dicts and DataFrame rows, read, chunked, merge_readers) over real DataFrameReaders: <= 3 inputs of <= 3 rows, total <= 6 (quick) / <= 4 inputs, total <= 7 (thorough), ties allowed, reader chunk size 1..max+1, both directions; unsorted inputs either rejected or merged monotonically. Parquet row iteration is exercised concretely in the replay. " + TRUST),
 "C15": ("section 2 C15", "picked_protein on <= 3 (quick) / 4 (thorough) peptides, <= 2 target/decoy pairs incl. two-member groups, peptide notations from a finite family, symbolic scores and labels, arbitrary tie-breaking permutation; group names as built by the real read_fasta for corresponding entry orders. Known finding: groups whose members are listed in a different order in target and decoy are not paired. Protein-level q-values are covered by C01/C03. " + TRUST),
 "C16": ("section 2 C16", "read_fasta body and _group_proteins on every incidence structure of 3x3, 3x2+decoy, 4x3 (quick) / up to 4x4 (thorough) with digest stubbed; all (or 4) entry orders x 2-3 global set-iteration orders per structure. The executor forks on every incidence bit: a solver-driven bounded-exhaustive walk, as the property's own quantifier asks. " + TRUST),
 "C17": ("section 2 C17", "sequence length L <= 4 (quick) / 6 (thorough) over A-Z, three enzyme patterns ([KR], [KR](?!P), \\w(?=D)), missed cleavages 0..3, all length bounds, semi/clip symbolic. The regex engine is the stub symx.rx (compared with the real re in the preflight); patterns with zero-width matches are outside. " + TRUST),
 "C18": ("section 2 C18", "_shuffle_proteins: one protein L <= 5 (quick) / 7 (thorough) and two proteins 4+4, shuffle and reverse, arbitrary RNG permutation (all permutations for n <= 4); make_decoys round trip on a VFS for sequence lengths 0,1,2,3,5,69..72,141 (K/R-free residues). textwrap.wrap runs natively on token strings (preflight-compared); sequences with whitespace/hyphens outside. " + TRUST),
 "C19": ("section 2 C19", "0..2 (quick) / 0..3 (thorough) feature columns, 1..2 / 1..3 PSM rows, 1..3 proteins per row, protein column anywhere, optional DefaultDirection line, with/without trailing newline; fields are opaque non-empty atoms without separators (PIN format). Header-only files (0 rows) are outside. " + TRUST),
 "C20": ("section 2 C20", "record-building generators _parse_msms_run/_parse_spectrum/_parse_psm over an element stub: peptide L <= 4, <= 3 modifications at ascending symbolic positions with mass strings of symbolic length 1..9, <= 2 alternative proteins with symbolic decoy flags, optional attributes, up to 2 runs x 2 spectra x 2 hits. etree.iterparse, DataFrame assembly and feature post-processing are outside the symbolic run (exercised concretely by the replay through read_pepxml). " + TRUST),
}
NA = {
 "C06": "PEP estimators (qvality spline fit, KDE + NNLS, histogram NNLS) are iterative IEEE floating-point computations in C/Fortran-backed libraries on >= 50 PSMs; no faithful bounded SMT encoding is within reach and a real-arithmetic stub would assume the conclusion (DESIGN.md section 2 C06).",
}
PENDING = "check not built yet in this revision (work in progress; DESIGN.md describes the planned harness)"
ids = ["C%02d" % i for i in range(1, 21)]
m = dict(version=1, setup_cmd="./setup.sh",
  hooks=dict(guard="MOKAPOT_VERIF", enable="no source hooks: the checks rebind module globals of the imported package from outside (export MOKAPOT_VERIF=1 is set by ./check but read by nothing in /repo)",
             baseline_off_cmd="cd /repo && /venv/bin/python -m pytest -ra -q -p no:cacheprovider --timeout=900 --continue-on-collection-errors",
             source_commits=[], add_only=True),
  engines=[dict(name="symx", path="symx/", serves_properties=sorted(CHECKS), kind_free_text="forking symbolic executor for Python over z3 (re-execution with decision prefixes, 16 worker processes), shimmed numpy/pandas/VFS world, concrete replay on unpatched code")],
  checks=[], not_applicable=[],
  notes="Exit codes of ./check: 0 held (or only KNOWN-FINDING lines), 1 replay-confirmed VIOLATION, 2 inconclusive (unknown/unsupported/budget), 3 harness error. See DESIGN.md.")
for i in ids:
    if i in CHECKS:
        ref, note = CHECKS[i]
        m["checks"].append(dict(property_id=i, quick_cmd="./check %s --tier quick" % i, thorough_cmd="./check %s --tier thorough" % i,
            evidence_file="evidence/%s.json" % i, replay_cmd_template="./check %s --replay {path}" % i, engine="symx",
            level_claimed=dict(category="model_checking", text=LEVEL, design_ref="DESIGN.md " + ref),
            level_note=note, technique=TECH))
    else:
        m["not_applicable"].append(dict(property_id=i, reason=NA.get(i, PENDING)))
json.dump(m, open(os.path.join(V, "MANIFEST.json"), "w"), indent=1)
print("checks:", [c["property_id"] for c in m["checks"]], "n/a:", [n["property_id"] for n in m["not_applicable"]])
