#!/bin/sh
# tools/mutant.sh <ID> <tier> <file-relative-to-repo> <sed-expression>   (development aid)
# Copies /repo's package to a scratch dir, applies the sed expression, runs the check against
# the copy, removes the copy. Never touches /repo or the evidence directory.
ID=$1; TIER=$2; FILE=$3; SED=$4; shift 4
T=$(mktemp -d /tmp/verif_mut_XXXXXX)
cp -r /repo/mokapot "$T/mokapot"
sed -i "$SED" "$T/$FILE"
if diff -q /repo/$FILE "$T/$FILE" >/dev/null; then echo "MUTANT DID NOT CHANGE THE FILE"; rm -rf "$T"; exit 9; fi
diff /repo/$FILE "$T/$FILE" | head -8
VERIF_REPO=$T VERIF_EVIDENCE_DIR=$T/ev VERIF_REPLAY_DIR=$T/replays "$(dirname "$0")/../check" "$ID" --tier "$TIER" "$@" 2>&1 | grep -E "^(VIOLATION|HARNESS|INCONCL|UNSUPP|KNOWN|C[0-9]+ |  harness=)" | cut -c1-600 | tail -8
RC=$?
rm -rf "$T"
