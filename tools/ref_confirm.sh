#!/bin/sh
# tools/ref_confirm.sh <worktree-with-refactoring-applied> <check ids...>
# Runs the named checks against a tree carrying a behaviour-preserving refactoring; every check must exit 0.
W=$1; shift
V="$(cd "$(dirname "$0")/.." && pwd)"
O=$(mktemp -d /tmp/verif_ref_XXXXXX)
echo "diff: $(git -C "$W" diff --shortstat -- mokapot)"
for C in "$@"; do
  S=$(date +%s)
  VERIF_REPO="$W" VERIF_EVIDENCE_DIR="$O/ev" VERIF_REPLAY_DIR="$O/replays" timeout ${TMO:-1500} "$V/check" $C --tier ${TIER:-quick} > "$O/check_$C.log" 2>&1; RC=$?
  E=$(date +%s)
  echo "check $C tier=${TIER:-quick}: exit=$RC wall=$((E-S))s"; grep -E "^(VIOLATION|HARNESS|INCONCL|UNSUPP|KNOWN|  harness=)" "$O/check_$C.log" | cut -c1-900 | head -6
  [ $RC -ne 0 ] && cp "$O/check_$C.log" /tmp/ref_fail_$C.log
done
rm -rf "$O"
