#!/bin/sh
# tools/regress.sh [seeds|refactors|all] [name-filter]
# Regression of the machinery itself against the stored changes (never touches /repo's working tree):
#   seeded/<name>/patch.diff    must make the quick check of its property exit 1 (VIOLATION, replay confirmed)
#   refactors/<ID>/patch.diff   behaviour-preserving rewrites: the related quick checks must exit 0
WHAT=${1:-all}; FILTER=${2:-}
V="$(cd "$(dirname "$0")/.." && pwd)"
FAIL=0
run() { # dir patch expect checks...
  D=$1; P=$2; EXP=$3; shift 3
  W=$(mktemp -d /tmp/verif_rg_XXXXXX)
  git -C /repo worktree add -q --detach "$W/wt" HEAD || { echo "$D: worktree failed"; FAIL=1; return; }
  if ! git -C "$W/wt" apply "$P" 2>/dev/null; then echo "$D: PATCH DOES NOT APPLY"; FAIL=1
  else
    for C in "$@"; do
      S=$(date +%s)
      VERIF_REPO="$W/wt" VERIF_EVIDENCE_DIR="$W/ev" VERIF_REPLAY_DIR="$W/replays" timeout 1800 "$V/check" $C --tier quick > "$W/log" 2>&1; RC=$?
      E=$(date +%s)
      if [ "$RC" = "$EXP" ]; then echo "ok   $D check $C exit=$RC (${EXP} expected) $((E-S))s"; else echo "FAIL $D check $C exit=$RC (${EXP} expected) $((E-S))s"; grep -E "^(VIOLATION|HARNESS|INCONCL|UNSUPP)" "$W/log" | cut -c1-400 | head -3; FAIL=1; fi
    done
  fi
  git -C /repo worktree remove --force "$W/wt"; rm -rf "$W"
}
if [ "$WHAT" = seeds ] || [ "$WHAT" = all ]; then
  for D in "$V"/seeded/*$FILTER*/; do
    N=$(basename "$D"); ID=$(echo "$N" | cut -c1-3)
    # meta.json may say "expect": 0 for a stored change that the checks do NOT report (recorded as a miss in DESIGN.md)
    EXP=$(sed -n 's/.*"expect": *\([0-9]\).*/\1/p' "$D/meta.json" | head -1); EXP=${EXP:-1}
    run "$N" "$D/patch.diff" $EXP $ID
  done
fi
if [ "$WHAT" = refactors ] || [ "$WHAT" = all ]; then
  for D in "$V"/refactors/*$FILTER*/; do
    N=$(basename "$D")
    case $N in
      C01) CS="C01 C04 C11";; C02) CS="C02 C05 C07 C08";; C03) CS="C03 C05 C09 C14 C04";; C10) CS="C10 C19 C07";;
      C12) CS="C12";; C13) CS="C13 C14";; C14) CS="C20 C14 C09 C03";; C17) CS="C15 C16 C17 C18";; C06) CS="C06 C01 C11";; R2a) CS="C01 C04 C11 C07 C12";; R2b) CS="C02 C05 C07 C08 C11 C04";; R2c) CS="C03 C05 C09 C14 C15 C07";; R2d) CS="C10 C19 C20 C09";; R2e) CS="C15 C16 C17 C18";; R2f) CS="C13 C14 C12";; *) CS="";;
    esac
    run "refactor-$N" "$D/patch.diff" 0 $CS
  done
fi
git -C /repo worktree prune
exit $FAIL
