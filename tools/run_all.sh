#!/bin/sh
# tools/run_all.sh <tier> [ids...]  - runs the checks one after another and prints exit code and wall time
cd "$(dirname "$0")/.."
TIER=${1:-quick}; shift
IDS=${@:-C01 C02 C03 C04 C05 C06 C07 C08 C09 C10 C11 C12 C13 C14 C15 C16 C17 C18 C19 C20}
for i in $IDS; do
  S=$(date +%s)
  ./check $i --tier $TIER > /tmp/run_all_$i.log 2>&1
  RC=$?
  E=$(date +%s)
  echo "$i tier=$TIER exit=$RC wall=$((E-S))s $(grep -E "^$i " /tmp/run_all_$i.log | tail -1)"
  grep -E "^(VIOLATION|HARNESS|INCONCL|UNSUPP|KNOWN)" /tmp/run_all_$i.log | cut -c1-400
done
