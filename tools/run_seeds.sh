#!/bin/sh
# tools/run_seeds.sh <seed>... : the quick tier of every check under other VERIF_SEED values (the seed drives the
# order of harnesses and the sample of paths that is validated against the real code); every run must exit 0.
cd "$(dirname "$0")/.."
for SD in "$@"; do
  for i in C01 C02 C03 C04 C05 C06 C07 C08 C09 C10 C11 C12 C13 C14 C15 C16 C17 C18 C19 C20; do
    O=$(mktemp -d /tmp/verif_sd_XXXXXX)
    VERIF_SEED=$SD VERIF_EVIDENCE_DIR=$O/ev VERIF_REPLAY_DIR=$O/rp ./check $i --tier quick > $O/log 2>&1; RC=$?
    echo "seed=$SD $i exit=$RC $(grep -E "^$i " $O/log | tail -1 | cut -c1-110)"
    [ $RC -ne 0 ] && grep -E "^(VIOLATION|HARNESS|INCONCL|UNSUPP|  harness=)" $O/log | cut -c1-500 | head -4
    rm -rf $O
  done
done
