#!/bin/sh
# tools/seed_confirm.sh <ID> <seed-dir> [check ids...]
# Confirms a seeded change written by a sub-agent in its own scratch worktree (<seed-dir>/SEED/):
#  - the demonstration passes without the patch and fails with it,
#  - the pinned test suite still has all its stable passes with the patch,
#  - then runs the named checks (default: <ID>) against a scratch copy carrying the patch.
# Nothing is ever applied to /repo here.
ID=$1; SRC=$2; shift 2
CHECKS=${@:-$ID}
V="$(cd "$(dirname "$0")/.." && pwd)"
W=$(mktemp -d /tmp/verif_seed_XXXXXX)
git -C /repo worktree add -q --detach "$W/wt" HEAD || exit 9
cp -r "$SRC/SEED" "$W/wt/SEED"
cd "$W/wt"
/venv/bin/python SEED/demo.py > "$W/demo_clean.log" 2>&1; RC0=$?
if ! git apply SEED/patch.diff; then echo "PATCH DOES NOT APPLY"; cd /; git -C /repo worktree remove --force "$W/wt"; rm -rf "$W"; exit 9; fi
/venv/bin/python SEED/demo.py > "$W/demo_patched.log" 2>&1; RC1=$?
echo "demo: clean exit=$RC0 patched exit=$RC1"; tail -3 "$W/demo_patched.log"
/venv/bin/python -m pytest -q -p no:cacheprovider --timeout=900 --continue-on-collection-errors --junitxml="$W/junit.xml" > "$W/pytest.log" 2>&1
/venv/bin/python - "$W/junit.xml" <<'PY'
import json, sys, xml.etree.ElementTree as ET
want = set(json.load(open('/root/.vp/BASELINE.json'))['stable_pass'])
got = set()
for tc in ET.parse(sys.argv[1]).getroot().iter('testcase'):
    if not any(c.tag in ('failure', 'error', 'skipped') for c in tc):
        got.add(tc.get('classname') + '::' + tc.get('name'))
print('suite with patch: %d of %d stable passes; missing: %s' % (len(want & got), len(want), sorted(want - got)))
PY
for C in $CHECKS; do
  S=$(date +%s)
  VERIF_REPO="$W/wt" VERIF_EVIDENCE_DIR="$W/ev" VERIF_REPLAY_DIR="$W/replays" "$V/check" $C --tier ${TIER:-quick} > "$W/check_$C.log" 2>&1; RC=$?
  E=$(date +%s)
  echo "check $C tier=${TIER:-quick}: exit=$RC wall=$((E-S))s"; grep -E "^(VIOLATION|HARNESS|INCONCL|UNSUPP|  harness=)" "$W/check_$C.log" | cut -c1-700 | head -4
done
cd /; git -C /repo worktree remove --force "$W/wt"; rm -rf "$W"
