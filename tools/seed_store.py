#!/usr/bin/env python3
"""tools/seed_store.py <seed-name> <property> <src-dir> <needs> <ran> <caught-by>  -> /verif/seeded/<seed-name>/"""
import json, os, shutil, sys
name, prop, src, needs, ran, caught = sys.argv[1:7]
V = os.path.dirname(os.path.dirname(os.path.abspath(__file__)))
d = os.path.join(V, "seeded", name)
os.makedirs(d, exist_ok=True)
for f in ("patch.diff", "demo.py", "README.md"):
    if os.path.exists(os.path.join(src, "SEED", f)):
        shutil.copy(os.path.join(src, "SEED", f), os.path.join(d, f))
json.dump(dict(property=prop, needs_to_manifest=needs, what_i_ran=ran, caught_by=caught,
               origin="written by an independent sub-agent that saw only the property text and its own scratch worktree"),
          open(os.path.join(d, "meta.json"), "w"), indent=1)
print("stored", d)
